package c17

import (
	"encoding/json"
	"fmt"
	"math/rand/v2"
	"sort"
	"strings"

	gast "github.com/vektah/gqlparser/v2/ast"
)

// ---------------------------------------------------------------------------------------------
// the standard introspection queries (graphql-js getIntrospectionQuery with every option on, and
// the legacy form older clients still send)

const typeRefFragment = `fragment TypeRef on __Type {
  kind name
  ofType { kind name ofType { kind name ofType { kind name ofType { kind name ofType { kind name ofType { kind name ofType { kind name ofType { kind name ofType { kind name } } } } } } } } }
}`

const standardQuery = `query IntrospectionQuery {
  __schema {
    description
    queryType { name kind }
    mutationType { name kind }
    subscriptionType { name kind }
    types { ...FullType }
    directives {
      name
      description
      isRepeatable
      locations
      args(includeDeprecated: true) { ...InputValue }
    }
  }
}
fragment FullType on __Type {
  kind
  name
  description
  specifiedByURL
  fields(includeDeprecated: true) {
    name
    description
    args(includeDeprecated: true) { ...InputValue }
    type { ...TypeRef }
    isDeprecated
    deprecationReason
  }
  inputFields(includeDeprecated: true) { ...InputValue }
  interfaces { ...TypeRef }
  enumValues(includeDeprecated: true) {
    name
    description
    isDeprecated
    deprecationReason
  }
  possibleTypes { ...TypeRef }
}
fragment InputValue on __InputValue {
  name
  description
  type { ...TypeRef }
  defaultValue
  isDeprecated
  deprecationReason
}
` + typeRefFragment

const legacyQuery = `query IntrospectionQuery {
  __schema {
    queryType { name }
    mutationType { name }
    subscriptionType { name }
    types { ...FullType }
    directives {
      name
      description
      locations
      args { ...InputValue }
    }
  }
}
fragment FullType on __Type {
  kind
  name
  description
  fields(includeDeprecated: true) {
    name
    description
    args { ...InputValue }
    type { ...TypeRef }
    isDeprecated
    deprecationReason
  }
  inputFields { ...InputValue }
  interfaces { ...TypeRef }
  enumValues(includeDeprecated: true) {
    name
    description
    isDeprecated
    deprecationReason
  }
  possibleTypes { ...TypeRef }
}
fragment InputValue on __InputValue {
  name
  description
  type { ...TypeRef }
  defaultValue
}
` + typeRefFragment

// ---------------------------------------------------------------------------------------------
// generated partial queries

type metaField struct {
	name   string
	target string // "" = leaf
	list   bool
	incDep bool // has the includeDeprecated argument
	ref    bool // serves a type *reference* (the target __Type is reached from another element)
}

var metaSchema = map[string][]metaField{
	"__Schema": {
		{name: "description"}, {name: "types", target: "__Type", list: true}, {name: "queryType", target: "__Type", ref: true},
		{name: "mutationType", target: "__Type", ref: true}, {name: "subscriptionType", target: "__Type", ref: true},
		{name: "directives", target: "__Directive", list: true},
	},
	"__Type": {
		{name: "kind"}, {name: "name"}, {name: "description"}, {name: "specifiedByURL"},
		{name: "fields", target: "__Field", list: true, incDep: true}, {name: "interfaces", target: "__Type", list: true, ref: true},
		{name: "possibleTypes", target: "__Type", list: true, ref: true}, {name: "enumValues", target: "__EnumValue", list: true, incDep: true},
		{name: "inputFields", target: "__InputValue", list: true, incDep: true}, {name: "ofType", target: "__Type", ref: true},
	},
	"__Field": {
		{name: "name"}, {name: "description"}, {name: "args", target: "__InputValue", list: true, incDep: true},
		{name: "type", target: "__Type", ref: true}, {name: "isDeprecated"}, {name: "deprecationReason"},
	},
	"__InputValue": {
		{name: "name"}, {name: "description"}, {name: "type", target: "__Type", ref: true}, {name: "defaultValue"},
		{name: "isDeprecated"}, {name: "deprecationReason"},
	},
	"__EnumValue": {{name: "name"}, {name: "description"}, {name: "isDeprecated"}, {name: "deprecationReason"}},
	"__Directive": {
		{name: "name"}, {name: "description"}, {name: "locations"}, {name: "args", target: "__InputValue", list: true, incDep: true}, {name: "isRepeatable"},
	},
}

// queryOpts: which features a generated query may use. Every feature is optional so that a share
// of the queries is free of each (a defect bound to one feature cannot mask the others).
type queryOpts struct {
	Aliases      bool // aliases below the root fields
	RootAliases  bool
	RefExpansion bool // select more than kind/name/ofType on a __Type reached through a reference
	Fragments    bool
	Directives   bool // @skip/@include
	IncDepVars   bool // includeDeprecated through variables
	IncDepLits   bool // includeDeprecated literals
	Duplicates   bool // the same field twice (to be merged)
	MaxDepth     int
}

type genQuery struct {
	Text      string
	OpName    string
	Variables map[string]any
	Features  []string
}

type queryGen struct {
	r        *rand.Rand
	o        queryOpts
	vars     []string // variable definitions
	values   map[string]any
	frags    []string
	nAlias   int
	nVar     int
	nFrag    int
	budget   int // remaining composite fields this query may select
	features map[string]bool
}

func (g *queryGen) feature(f string) { g.features[f] = true }

func (g *queryGen) boolVar(val bool, nonNullPosition bool) string {
	g.nVar++
	name := fmt.Sprintf("v%d", g.nVar)
	k := g.r.IntN(5)
	if nonNullPosition && k == 1 {
		k = 0
	}
	switch k {
	case 0: // required, provided
		g.vars = append(g.vars, "$"+name+": Boolean!")
		g.values[name] = val
	case 1: // nullable, provided
		g.vars = append(g.vars, "$"+name+": Boolean")
		g.values[name] = val
	case 2: // default equal to the wanted value, not provided
		g.vars = append(g.vars, fmt.Sprintf("$%s: Boolean = %v", name, val))
		g.feature("variable-default-used")
	case 3: // default overridden by the provided value
		g.vars = append(g.vars, fmt.Sprintf("$%s: Boolean = %v", name, !val))
		g.values[name] = val
	default:
		g.vars = append(g.vars, fmt.Sprintf("$%s: Boolean! = %v", name, !val))
		g.values[name] = val
	}
	return "$" + name
}

func (g *queryGen) incDepArg() string {
	var modes []string
	modes = append(modes, "absent")
	if g.o.IncDepLits {
		modes = append(modes, "true", "false", "true", "false")
	}
	if g.o.IncDepVars {
		modes = append(modes, "var", "var")
	}
	switch m := modes[g.r.IntN(len(modes))]; m {
	case "absent":
		return ""
	case "var":
		g.feature("includeDeprecated-variable")
		return "(includeDeprecated: " + g.boolVar(g.r.IntN(2) == 0, false) + ")"
	default:
		g.feature("includeDeprecated-" + m)
		return "(includeDeprecated: " + m + ")"
	}
}

func (g *queryGen) directive() string {
	if !g.o.Directives || g.r.IntN(6) != 0 {
		return ""
	}
	g.feature("skip-include")
	name := []string{"skip", "include"}[g.r.IntN(2)]
	val := g.r.IntN(2) == 0
	if g.r.IntN(2) == 0 {
		return fmt.Sprintf(" @%s(if: %s)", name, g.boolVar(val, true))
	}
	return fmt.Sprintf(" @%s(if: %v)", name, val)
}

func (g *queryGen) alias() string {
	if !g.o.Aliases || g.r.IntN(4) != 0 {
		return ""
	}
	g.nAlias++
	g.feature("alias")
	return fmt.Sprintf("a%d: ", g.nAlias)
}

// selection generates the inside of a selection set on a meta type. viaRef: the object was reached
// through a type reference.
func (g *queryGen) selection(t string, depth int, viaRef bool) string {
	fields := metaSchema[t]
	var parts []string
	pick := func(f metaField) bool {
		if t == "__Type" && viaRef && !g.o.RefExpansion {
			switch f.name {
			case "kind", "name", "ofType":
			default:
				return false
			}
		}
		if f.target == "" {
			return g.r.IntN(2) == 0
		}
		if depth >= g.o.MaxDepth || g.budget <= 0 {
			return false
		}
		ok := g.r.IntN(3) == 0
		if f.name == "ofType" {
			ok = g.r.IntN(3) != 0
		}
		if ok {
			g.budget--
		}
		return ok
	}
	emit := func(f metaField) (text string, plain bool) {
		var sb strings.Builder
		al := g.alias()
		arg := ""
		if f.incDep {
			arg = g.incDepArg()
		}
		dir := g.directive()
		sb.WriteString(al + f.name + arg + dir)
		if f.target != "" {
			if f.ref {
				g.feature("type-reference")
				if g.o.RefExpansion {
					g.feature("reference-expansion")
				}
			}
			d := depth + 1
			if f.name == "ofType" {
				d = depth // ofType chains do not count as nesting (bounded by their own coin flips)
				if g.r.IntN(8) == 0 {
					d = g.o.MaxDepth
				}
			}
			sb.WriteString(" { " + g.selection(f.target, d, f.ref || (viaRef && f.name == "ofType")) + " }")
		}
		return sb.String(), al == "" && arg == "" && dir == ""
	}
	for _, f := range fields {
		if !pick(f) {
			continue
		}
		text, plain := emit(f)
		parts = append(parts, text)
		// the same list field again under an alias with (possibly) another includeDeprecated
		if f.incDep && g.o.Aliases && g.r.IntN(5) == 0 && depth < g.o.MaxDepth && g.budget > 0 {
			g.budget--
			g.nAlias++
			g.feature("alias")
			g.feature("same-field-two-aliases")
			parts = append(parts, fmt.Sprintf("b%d: %s%s { %s }", g.nAlias, f.name, g.incDepArg(), g.selection(f.target, depth+1, false)))
		}
		// the same field twice without alias and arguments: the selection sets are merged; the second
		// one selects leaves only (no arguments → no merge conflicts by construction)
		if g.o.Duplicates && plain && f.target != "" && g.r.IntN(4) == 0 {
			var leaves []string
			for _, lf := range metaSchema[f.target] {
				if lf.target == "" && g.r.IntN(2) == 0 {
					if f.target == "__Type" && (f.ref || viaRef) && !g.o.RefExpansion && lf.name != "kind" && lf.name != "name" {
						continue
					}
					leaves = append(leaves, lf.name)
				}
			}
			if len(leaves) > 0 {
				g.feature("duplicate-field-merged")
				parts = append(parts, f.name+" { "+strings.Join(leaves, " ")+" }")
			}
		}
	}
	if g.r.IntN(5) == 0 {
		parts = append(parts, g.alias()+"__typename")
		g.feature("__typename-nested")
	}
	if len(parts) == 0 {
		// at least one field
		if t == "__Schema" {
			parts = append(parts, "queryType { name }")
		} else if t == "__Directive" || t == "__Type" || t == "__Field" || t == "__InputValue" || t == "__EnumValue" {
			parts = append(parts, "name")
		}
	}
	g.r.Shuffle(len(parts), func(a, b int) { parts[a], parts[b] = parts[b], parts[a] })
	// wrap a slice of the parts into a fragment
	if g.o.Fragments && len(parts) >= 2 && g.r.IntN(3) == 0 {
		k := 1 + g.r.IntN(len(parts)-1)
		inner := strings.Join(parts[k:], " ")
		var wrapped string
		switch g.r.IntN(3) {
		case 0:
			wrapped = "... on " + t + g.directive() + " { " + inner + " }"
			g.feature("inline-fragment")
		case 1:
			wrapped = "..." + g.directive() + " { " + inner + " }"
			if !strings.Contains(wrapped, "@") {
				wrapped = "... { " + inner + " }"
			}
			g.feature("inline-fragment-untyped")
		default:
			g.nFrag++
			name := fmt.Sprintf("F%d", g.nFrag)
			g.frags = append(g.frags, "fragment "+name+" on "+t+" { "+inner+" }")
			wrapped = "..." + name + g.directive()
			g.feature("fragment-spread")
		}
		parts = append(parts[:k:k], wrapped)
	}
	return strings.Join(parts, " ")
}

func (g *queryGen) rootAlias(prefix string) string {
	if !g.o.RootAliases || g.r.IntN(2) != 0 {
		return ""
	}
	g.nAlias++
	g.feature("root-alias")
	return fmt.Sprintf("%s%d: ", prefix, g.nAlias)
}

func (g *queryGen) typeField(name string) string {
	arg := fmt.Sprintf("%q", name)
	if g.r.IntN(4) == 0 {
		g.nVar++
		v := fmt.Sprintf("n%d", g.nVar)
		g.vars = append(g.vars, "$"+v+": String!")
		g.values[v] = name
		arg = "$" + v
		g.feature("type-name-variable")
	}
	return "__type(name: " + arg + ") { " + g.selection("__Type", 0, false) + " }"
}

func (g *queryGen) finish(body string, mutation bool) genQuery {
	var sb strings.Builder
	opName := ""
	kw := "query"
	if mutation {
		kw = "mutation"
	}
	switch {
	case len(g.vars) > 0 || mutation || g.r.IntN(3) == 0:
		opName = "Q"
		sb.WriteString(kw + " Q")
		if len(g.vars) > 0 {
			sb.WriteString("(" + strings.Join(g.vars, ", ") + ")")
		}
		sb.WriteString(" ")
	case g.r.IntN(2) == 0:
		sb.WriteString("query ")
	}
	sb.WriteString("{ " + body + " }")
	for _, f := range g.frags {
		sb.WriteString("\n" + f)
	}
	if opName != "" && g.r.IntN(5) == 0 {
		sb.WriteString("\nquery Other { __typename }")
		g.feature("multi-operation")
	} else if opName != "" && g.r.IntN(2) == 0 {
		opName = "" // a single named operation needs no operationName
	}
	feats := make([]string, 0, len(g.features))
	for f := range g.features {
		feats = append(feats, f)
	}
	sort.Strings(feats)
	return genQuery{Text: sb.String(), OpName: opName, Variables: g.values, Features: feats}
}

func newQueryGen(r *rand.Rand, o queryOpts) *queryGen {
	return &queryGen{r: r, o: o, values: map[string]any{}, features: map[string]bool{}, budget: 6 + r.IntN(14)}
}

func randomOpts(r *rand.Rand) queryOpts {
	return queryOpts{
		Aliases: r.IntN(3) == 0, RootAliases: r.IntN(3) == 0, RefExpansion: r.IntN(3) == 0, Fragments: r.IntN(2) == 0, Directives: r.IntN(3) == 0,
		IncDepVars: r.IntN(3) == 0, IncDepLits: r.IntN(3) != 0, Duplicates: r.IntN(3) == 0, MaxDepth: 1 + r.IntN(4),
	}
}

// genTypeQuery: one __type lookup.
func genTypeQuery(r *rand.Rand, o queryOpts, typeName string) genQuery {
	g := newQueryGen(r, o)
	return g.finish(g.rootAlias("t")+g.typeField(typeName), false)
}

// genSchemaQuery: a partial __schema query.
func genSchemaQuery(r *rand.Rand, o queryOpts) genQuery {
	g := newQueryGen(r, o)
	return g.finish(g.rootAlias("s")+"__schema { "+g.selection("__Schema", 0, false)+" }", false)
}

// genMixedQuery: several root fields: __typename, __schema, several __type lookups.
func genMixedQuery(r *rand.Rand, o queryOpts, typeNames []string) genQuery {
	g := newQueryGen(r, o)
	o.RootAliases = true
	g.o = o
	var parts []string
	if r.IntN(2) == 0 {
		parts = append(parts, g.rootAlias("n")+"__typename")
		g.feature("__typename-root")
	}
	if r.IntN(2) == 0 {
		parts = append(parts, g.rootAlias("s")+"__schema { "+g.selection("__Schema", 1, false)+" }")
	}
	n := 1 + r.IntN(3)
	usedPlain := false
	for i := 0; i < n; i++ {
		name := typeNames[r.IntN(len(typeNames))]
		a := g.rootAlias("t")
		if a == "" {
			if usedPlain {
				g.nAlias++
				a = fmt.Sprintf("t%d: ", g.nAlias)
				g.feature("root-alias")
			}
			usedPlain = true
		}
		parts = append(parts, a+g.typeField(name))
	}
	r.Shuffle(len(parts), func(a, b int) { parts[a], parts[b] = parts[b], parts[a] })
	return g.finish(strings.Join(parts, " "), false)
}

func varsJSON(m map[string]any) []byte {
	if len(m) == 0 {
		return nil
	}
	b, _ := json.Marshal(m)
	return b
}

// ---------------------------------------------------------------------------------------------
// positions of a (validated) query: response-key path → what is selected there

type posInfo struct {
	Parent, Field string
	Aliased       bool   // this field or an ancestor below the root field carries an alias ≠ name
	RootAliased   bool   // the root field carries an alias
	IncDep        string // includeDeprecated of the nearest enclosing field that has one: absent | literal | variable | null | none
	RefExpansion  bool   // a field other than kind/name/ofType/__typename of a __Type reached through a type reference
	Merged        bool   // the response key is selected more than once (field merging)
	InFragment    bool
	Conditional   bool // carries or sits below @skip/@include
}

var refFields = map[string]bool{"__Schema.queryType": true, "__Schema.mutationType": true, "__Schema.subscriptionType": true, "__Type.interfaces": true, "__Type.possibleTypes": true, "__Type.ofType": true, "__Field.type": true, "__InputValue.type": true}

type walkCtx struct {
	aliased, rootAliased, viaRef, inFragment, conditional bool
	incDep                                                string
}

// positions walks the operation (fragments expanded) and describes every response-key path
// (indices omitted: in the introspection schema a key path determines the field).
func positions(doc *gast.QueryDocument, op *gast.OperationDefinition) map[string]*posInfo {
	out := map[string]*posInfo{}
	var walk func(sels gast.SelectionSet, path string, c walkCtx, depth int)
	walk = func(sels gast.SelectionSet, path string, c walkCtx, depth int) {
		for _, s := range sels {
			switch s := s.(type) {
			case *gast.Field:
				key := s.Alias
				if key == "" {
					key = s.Name
				}
				p := path + "/" + key
				cc := c
				aliased := s.Alias != "" && s.Alias != s.Name
				if depth == 0 {
					cc.rootAliased = aliased
				} else if aliased {
					cc.aliased = true
				}
				if len(s.Directives) > 0 {
					cc.conditional = true
				}
				parent := ""
				if s.ObjectDefinition != nil {
					parent = s.ObjectDefinition.Name
				}
				if s.Definition != nil && s.Definition.Arguments.ForName("includeDeprecated") != nil {
					cc.incDep = "absent"
					if a := s.Arguments.ForName("includeDeprecated"); a != nil && a.Value != nil {
						switch a.Value.Kind {
						case gast.Variable:
							cc.incDep = "variable"
						case gast.NullValue:
							cc.incDep = "null"
						default:
							cc.incDep = "literal"
						}
					}
				}
				info := &posInfo{Parent: parent, Field: s.Name, Aliased: cc.aliased, RootAliased: cc.rootAliased, IncDep: cc.incDep, InFragment: cc.inFragment, Conditional: cc.conditional}
				if parent == "__Type" && c.viaRef {
					switch s.Name {
					case "kind", "name", "ofType", "__typename":
					default:
						info.RefExpansion = true
					}
				}
				if prev := out[p]; prev != nil {
					info.Merged = true
					prev.Merged = true
					info.Aliased = info.Aliased || prev.Aliased
					info.RefExpansion = info.RefExpansion || prev.RefExpansion
					info.Conditional = info.Conditional || prev.Conditional
					info.InFragment = info.InFragment || prev.InFragment
				}
				out[p] = info
				cc.viaRef = refFields[parent+"."+s.Name] || (c.viaRef && s.Name == "ofType")
				walk(s.SelectionSet, p, cc, depth+1)
			case *gast.InlineFragment:
				cc := c
				cc.inFragment = true
				if len(s.Directives) > 0 {
					cc.conditional = true
				}
				walk(s.SelectionSet, path, cc, depth)
			case *gast.FragmentSpread:
				if s.Definition == nil || depth > 40 {
					continue
				}
				cc := c
				cc.inFragment = true
				if len(s.Directives) > 0 {
					cc.conditional = true
				}
				walk(s.Definition.SelectionSet, path, cc, depth)
			}
		}
	}
	walk(op.SelectionSet, "", walkCtx{incDep: "none"}, 0)
	return out
}
