package c17

import (
	"bytes"
	"context"
	"encoding/json"
	"fmt"
	"testing"

	"github.com/jensneuse/abstractlogger"
	"github.com/wundergraph/graphql-go-tools/execution/engine"
	"github.com/wundergraph/graphql-go-tools/execution/graphql"
	"github.com/wundergraph/graphql-go-tools/v2/pkg/astprinter"
	"github.com/wundergraph/graphql-go-tools/v2/pkg/engine/resolve"
	"github.com/wundergraph/graphql-go-tools/v2/pkg/introspection"
	"github.com/wundergraph/graphql-go-tools/v2/pkg/operationreport"
)

const probeSDL = `
"""
schema desc
"""
schema { query: Query }
"dir desc"
directive @tag(name: String! = "x", old: Int @deprecated(reason: "gone")) repeatable on FIELD_DEFINITION | OBJECT
scalar URL @specifiedBy(url: "https://example.com/\"q\"")
enum Color { RED GREEN @deprecated BLUE @deprecated(reason: "say \"hi\"\nnl") }
input Pt { x: Int = 1, y: [[Int!]]! = [[1,2],[3]], z: Pt, old: String = "a\"b" @deprecated(reason: "r"), c: Color = RED, s: String = """block
 str""" f: Float = 1e3 n: Int = null o: Pt = {x: 2, z: {x: 3}} }
interface Node { id: ID! }
interface Named implements Node { id: ID! name(arg: Int = 5 @deprecated): String @deprecated(reason: "no") }
type User implements Named & Node { id: ID! name(arg: Int = 5 @deprecated): String deep: [[[User!]]!]! }
type Other { a: Int }
union U = User | Other
type Query { u(p: Pt = {x: 1}): U n: Node nn: [Named!] url: URL }
`

func TestProbe(t *testing.T) {
	schema, err := graphql.NewSchemaFromString(probeSDL)
	if err != nil {
		t.Fatal(err)
	}
	var data introspection.Data
	var report operationreport.Report
	introspection.NewGenerator().Generate(schema.Document(), &report, &data)
	if report.HasErrors() {
		t.Fatal(report)
	}
	b, _ := json.Marshal(data)
	var generic map[string]any
	json.Unmarshal(b, &generic)
	types := generic["__schema"].(map[string]any)["types"].([]any)
	for _, x := range types {
		m := x.(map[string]any)
		switch m["name"] {
		case "Pt", "Named", "Color", "URL", "User":
			_ = m
		}
	}

	conv := introspection.JsonConverter{}
	doc, err := conv.GraphQLDocument(bytes.NewReader(b))
	if err != nil {
		t.Fatal(err)
	}
	var out bytes.Buffer
	astprinter.PrintIndent(doc, []byte("  "), &out)
	

	ctx, cancel := context.WithCancel(context.Background())
	defer cancel()
	conf := engine.NewConfiguration(schema)
	eng, err := engine.NewExecutionEngine(ctx, abstractlogger.NoopLogger, conf, resolve.ResolverOptions{MaxConcurrency: 4})
	if err != nil {
		t.Fatal(err)
	}
	type qv struct{ q, v string }
	for _, q := range []qv{
		{`{ __type(name: "User") { n: name k: kind } }`, ""},
		{`{ t: __type(name: "User") { name } s: __schema { queryType { name } } }`, ""},
		{`query($d: Boolean) { __type(name: "Color") { enumValues(includeDeprecated: $d) { name } } }`, `{"d": true}`},
		{`query($d: Boolean!) { __type(name: "Color") { enumValues(includeDeprecated: $d) { name } } }`, `{"d": true}`},
		{`query($d: Boolean = true) { __type(name: "Color") { enumValues(includeDeprecated: $d) { name } } }`, `{}`},
		{`query($d: Boolean = false) { __type(name: "Color") { enumValues(includeDeprecated: $d) { name } } }`, `{"d": true}`},
		{`{ __type(name: "Color") { enumValues(includeDeprecated: true) { name } } }`, ``},
		{`{ __type(name: "Color") { enumValues(includeDeprecated: false) { name } } }`, ``},
		{`query($n: String!) { __type(name: $n) { name ... on __Type { kind } ... { description } } }`, `{"n":"Color"}`},
		{`query($s: Boolean!) { __type(name: "Color") { name @skip(if: $s) kind @include(if: $s) __typename } }`, `{"s":true}`},
		{`{ __type(name: "Color") { enumValues(includeDeprecated: true) { name } } x: __type(name: "Color") { enumValues { name } } }`, ``},
		{`{ __type(name: "User") { fields { name args { name } } } }`, ``},
		{`{ __type(name: "User") { fields { name args(includeDeprecated: true) { name } } } }`, ``},
		{`{ __type(name: "Named") { fields { name } } }`, ``},
		{`{ __type(name: "Named") { fields(includeDeprecated: true) { name } } }`, ``},
		{`{ __type(name: "Named") { fields(includeDeprecated: true) { name args(includeDeprecated: true) { name } } } }`, ``},
		{`{ __type(name: "Named") { fields(includeDeprecated: true) { name args(includeDeprecated: false) { name } } } }`, ``},
		{`{ __type(name: "Named") { fields(includeDeprecated: false) { name args(includeDeprecated: true) { name } } } }`, ``},
		{`{ __schema { types { name enumValues(includeDeprecated: true) { name } inputFields(includeDeprecated: true) { name } } } }`, ``},
		{`{ __schema { description types { name description } } }`, ``},
	} {
		w := graphql.NewEngineResultWriter()
		err := eng.Execute(context.Background(), &graphql.Request{Query: q.q, Variables: []byte(q.v)}, &w)
		fmt.Println(q.q, q.v, "\n  =>", err, w.String())
	}
}
