package c17

import (
	"context"
	"fmt"
	"sort"
	"strings"

	"github.com/jensneuse/abstractlogger"

	"github.com/wundergraph/graphql-go-tools/execution/engine"
	"github.com/wundergraph/graphql-go-tools/execution/graphql"
	"github.com/wundergraph/graphql-go-tools/v2/pkg/engine/resolve"

	"verifharness/internal/ref"
)

// engineRig is a real ExecutionEngine over the schema. No data source is configured by the
// harness: introspection is served by the introspection data source NewExecutionEngine adds.
type engineRig struct {
	eng    *engine.ExecutionEngine
	cancel context.CancelFunc
}

func newEngineRig(schema *graphql.Schema) (*engineRig, error) {
	ctx, cancel := context.WithCancel(context.Background())
	conf := engine.NewConfiguration(schema)
	eng, err := engine.NewExecutionEngine(ctx, abstractlogger.NoopLogger, conf, resolve.ResolverOptions{MaxConcurrency: 4})
	if err != nil {
		cancel()
		return nil, err
	}
	return &engineRig{eng: eng, cancel: cancel}, nil
}

func (e *engineRig) close() { e.cancel() }

type engineAnswer struct {
	Raw     string
	Err     error
	Data    any
	HasData bool
	Errors  []any
}

func (e *engineRig) exec(q genQuery) engineAnswer {
	w := graphql.NewEngineResultWriter()
	req := &graphql.Request{Query: q.Text, OperationName: q.OpName, Variables: varsJSON(q.Variables)}
	a := engineAnswer{}
	a.Err = e.eng.Execute(context.Background(), req, &w)
	a.Raw = w.String()
	if a.Err != nil {
		return a
	}
	v, err := ref.DecodeJSON([]byte(a.Raw))
	if err != nil {
		a.Err = fmt.Errorf("response is not valid JSON: %v", err)
		return a
	}
	if m, ok := v.(map[string]any); ok {
		a.Data, a.HasData = m["data"]
		a.Errors, _ = m["errors"].([]any)
	}
	return a
}

// ---------------------------------------------------------------------------------------------
// comparison of an answer with the reference answer

type normStats struct {
	keepDescriptions    bool // observation mode: descriptions stay ("" read as null)
	descriptionsDropped int
	descriptionsDiffer  int
	emptyListAsNull     int
	defaultsCanon       int
	positions           int
}

// normalize makes the tolerated differences disappear on both sides: descriptions are dropped
// (the statement does not list them), default values are compared as parsed GraphQL values, lists
// are order-insensitive, and a list that lists nothing is the same whether null or empty.
func normalize(v any, keyPath string, shape map[string]*posInfo, st *normStats) any {
	switch x := v.(type) {
	case map[string]any:
		out := make(map[string]any, len(x))
		for k, child := range x {
			p := keyPath + "/" + k
			info := shape[p]
			if info != nil && info.Field == "description" {
				if !st.keepDescriptions {
					st.descriptionsDropped++
					continue
				}
				if s, ok := child.(string); ok && s == "" {
					child = nil
				}
			}
			st.positions++
			nv := normalize(child, p, shape, st)
			if info != nil && info.Parent == "__InputValue" && info.Field == "defaultValue" {
				if s, ok := nv.(string); ok {
					st.defaultsCanon++
					if val, err := parseValueText(s); err != nil {
						nv = "unparsable default value: " + s
					} else {
						nv = "value " + canonValue(val)
					}
				}
			}
			out[k] = nv
		}
		return out
	case []any:
		if len(x) == 0 {
			st.emptyListAsNull++
			return nil
		}
		out := make([]any, len(x))
		for i, it := range x {
			out[i] = normalize(it, keyPath, shape, st)
		}
		return out
	}
	return v
}

// canonSorted renders a normalized value with every list sorted (lists are compared as multisets:
// the spec prescribes no order for introspection lists).
func canonSorted(v any) string {
	var sb strings.Builder
	canonSortedInto(&sb, v)
	return sb.String()
}

func canonSortedInto(sb *strings.Builder, v any) {
	switch x := v.(type) {
	case map[string]any:
		sb.WriteByte('{')
		for i, k := range sortedKeys(x) {
			if i > 0 {
				sb.WriteByte(',')
			}
			fmt.Fprintf(sb, "%q:", k)
			canonSortedInto(sb, x[k])
		}
		sb.WriteByte('}')
	case []any:
		parts := make([]string, len(x))
		for i, it := range x {
			parts[i] = canonSorted(it)
		}
		sort.Strings(parts)
		sb.WriteString("[" + strings.Join(parts, ",") + "]")
	default:
		sb.WriteString(ref.Canon(v))
	}
}

type jdiff struct {
	KeyPath  string
	Expected string
	Observed string
	ExpClass string
	ObsClass string
}

func classOf(v any, present bool) string {
	if !present {
		return "absent"
	}
	switch v.(type) {
	case nil:
		return "null-or-empty"
	case map[string]any:
		return "object"
	case []any:
		return "list"
	case string:
		return "string"
	case bool:
		return "boolean"
	}
	return "other"
}

func short(v any, present bool) string {
	if !present {
		return "<absent>"
	}
	s := ref.Canon(v)
	if len(s) > 400 {
		s = s[:400] + "…"
	}
	return s
}

// similarity counts the equal scalar leaves two values have at the same places (used to pair the
// unmatched items of two lists before descending into them).
func similarity(a, b any) int {
	switch x := a.(type) {
	case map[string]any:
		y, ok := b.(map[string]any)
		if !ok {
			return 0
		}
		n := 0
		for k, v := range x {
			if w, ok := y[k]; ok {
				n += similarity(v, w)
			}
		}
		return n
	case []any:
		y, ok := b.([]any)
		if !ok {
			return 0
		}
		n := 0
		for i := 0; i < len(x) && i < len(y); i++ {
			n += similarity(x[i], y[i])
		}
		return n
	case string:
		if y, ok := b.(string); ok && x == y {
			return 2
		}
	case bool:
		if y, ok := b.(bool); ok && x == y {
			return 1
		}
	case nil:
		if b == nil {
			return 1
		}
	}
	return 0
}

// diffJSON collects the differing positions of two normalized values.
func diffJSON(exp, obs any, expPresent, obsPresent bool, keyPath string, out *[]jdiff) {
	if len(*out) >= 40 {
		return
	}
	if expPresent && obsPresent && canonSorted(exp) == canonSorted(obs) {
		return
	}
	em, eok := exp.(map[string]any)
	om, ook := obs.(map[string]any)
	if eok && ook {
		keys := map[string]bool{}
		for k := range em {
			keys[k] = true
		}
		for k := range om {
			keys[k] = true
		}
		for _, k := range sortedKeys(keys) {
			ev, ep := em[k]
			ov, op := om[k]
			diffJSON(ev, ov, ep, op, keyPath+"/"+k, out)
		}
		return
	}
	el, eok := exp.([]any)
	ol, ook := obs.([]any)
	if eok && ook {
		used := make([]bool, len(ol))
		oc := make([]string, len(ol))
		for j, o := range ol {
			oc[j] = canonSorted(o)
		}
		var restE []any
		for _, e := range el {
			ce := canonSorted(e)
			found := false
			for j := range ol {
				if !used[j] && oc[j] == ce {
					used[j], found = true, true
					break
				}
			}
			if !found {
				restE = append(restE, e)
			}
		}
		var restO []any
		for j, o := range ol {
			if !used[j] {
				restO = append(restO, o)
			}
		}
		// pair and descend. Both sides list in document order: when the lists are equally long and
		// exactly the unmatched items sit at the same indexes, pair by index (exact); when as many
		// are left on both sides, pair the leftovers in order; otherwise by similarity.
		if len(el) == len(ol) {
			unequal := 0
			for i := range el {
				if canonSorted(el[i]) != oc[i] {
					unequal++
				}
			}
			if unequal == len(restE) {
				for i := range el {
					if canonSorted(el[i]) != oc[i] {
						diffJSON(el[i], ol[i], true, true, keyPath, out)
					}
				}
				return
			}
		}
		if len(restE) == len(restO) {
			for i := range restE {
				diffJSON(restE[i], restO[i], true, true, keyPath, out)
			}
			return
		}
		for _, e := range restE {
			best, bestScore := -1, 0
			for j, o := range restO {
				if o == nil {
					continue
				}
				if sc := similarity(e, o); sc > bestScore {
					best, bestScore = j, sc
				}
			}
			if best >= 0 {
				diffJSON(e, restO[best], true, true, keyPath, out)
				restO[best] = nil
				continue
			}
			*out = append(*out, jdiff{KeyPath: keyPath, Expected: "list item " + short(e, true), Observed: "<no such item>", ExpClass: "item", ObsClass: "missing-item"})
		}
		for _, o := range restO {
			if o != nil {
				*out = append(*out, jdiff{KeyPath: keyPath, Expected: "<no such item>", Observed: "list item " + short(o, true), ExpClass: "no-item", ObsClass: "extra-item"})
			}
		}
		return
	}
	*out = append(*out, jdiff{KeyPath: keyPath, Expected: short(exp, expPresent), Observed: short(obs, obsPresent), ExpClass: classOf(exp, expPresent), ObsClass: classOf(obs, obsPresent)})
}

func errorClass(msg string) string {
	switch {
	case strings.Contains(msg, "Cannot return null for non-nullable field"):
		return "non-null-violation"
	case strings.Contains(msg, "internal"):
		return "internal-error"
	case strings.Contains(msg, "not defined") || strings.Contains(msg, "unknown"):
		return "unknown-element"
	}
	return "other"
}
