package c17

import (
	"fmt"
	"sort"
	"strings"

	"github.com/vektah/gqlparser/v2"
	gast "github.com/vektah/gqlparser/v2/ast"

	"verifharness/internal/ref"
)

// Reference introspection: the spec's introspection schema resolved over gqlparser's ast.Schema
// (independent loader), executed by the reference executor (aliases, fragments, @skip/@include,
// argument coercion with defaults).

// loadReference loads the SDL with gqlparser. The one built-in directive that is not in the spec
// yet (@defer) is taken as the repository configures it (base.graphql), like with like.
func loadReference(sdl string) (*gast.Schema, error) {
	s, err := gqlparser.LoadSchema(&gast.Source{Name: "schema", Input: sdl})
	if err != nil {
		return nil, err
	}
	if d := s.Directives["defer"]; d != nil {
		d.Arguments = gast.ArgumentDefinitionList{
			{Name: "label", Type: gast.NamedType("String", nil)},
			{Name: "if", Type: gast.NonNullNamedType("Boolean", nil), DefaultValue: &gast.Value{Raw: "true", Kind: gast.BooleanValue}},
		}
	}
	return s, nil
}

type typeNode struct {
	def *gast.Definition // named type
	t   *gast.Type       // wrapper (or named reference when def == nil)
}

type inputNode struct {
	name, description string
	t                 *gast.Type
	def               *gast.Value
	dirs              gast.DirectiveList
}

type introResolver struct {
	s     *gast.Schema
	nodes map[string]any
	n     int
}

func newIntroResolver(s *gast.Schema) *introResolver {
	return &introResolver{s: s, nodes: map[string]any{}}
}

// order in which base.graphql defines the built-in directives (only used to list in the same
// order as the repository, which makes the pairing of differing list items exact; the comparison
// itself is order-insensitive)
var builtinDirectiveOrder = map[string]int{"include": 1, "skip": 2, "deprecated": 3, "specifiedBy": 4, "oneOf": 5, "defer": 6}
var builtinScalarOrder = map[string]int{"Int": 1, "Float": 2, "String": 3, "Boolean": 4, "ID": 5}

// docOrder sorts type names by their position in the SDL, built-in scalars last.
func (ir *introResolver) docOrder(names []string) {
	s := ir.s
	sort.Slice(names, func(a, b int) bool {
		ba, bb := builtinScalarOrder[names[a]], builtinScalarOrder[names[b]]
		if ba != bb {
			return ba < bb
		}
		da, db := s.Types[names[a]], s.Types[names[b]]
		if da != nil && db != nil && da.Position != nil && db.Position != nil && da.Position.Start != db.Position.Start {
			return da.Position.Start < db.Position.Start
		}
		return names[a] < names[b]
	})
}

func (ir *introResolver) obj(typ string, v any) *ref.Obj {
	ir.n++
	id := fmt.Sprintf("n%d", ir.n)
	ir.nodes[id] = v
	return &ref.Obj{Type: typ, ID: id}
}

func (ir *introResolver) namedType(name string) any {
	def := ir.s.Types[name]
	if def == nil {
		return nil
	}
	return ir.obj("__Type", typeNode{def: def})
}

func (ir *introResolver) typeOf(t *gast.Type) any {
	if t == nil {
		return nil
	}
	if !t.NonNull && t.Elem == nil {
		return ir.namedType(t.NamedType)
	}
	return ir.obj("__Type", typeNode{t: t})
}

func strOrNil(s string) any {
	if s == "" {
		return nil
	}
	return s
}

func includeDeprecated(args map[string]any) bool {
	b, _ := args["includeDeprecated"].(bool)
	return b
}

func (ir *introResolver) inputList(args map[string]any, list []inputNode) []any {
	out := []any{}
	for _, in := range list {
		if dep, _ := gqlDeprecation(in.dirs); dep && !includeDeprecated(args) {
			continue
		}
		out = append(out, ir.obj("__InputValue", in))
	}
	return out
}

func argNodes(l gast.ArgumentDefinitionList) []inputNode {
	out := make([]inputNode, len(l))
	for i, a := range l {
		out[i] = inputNode{name: a.Name, description: a.Description, t: a.Type, def: a.DefaultValue, dirs: a.Directives}
	}
	return out
}

func fieldNodes(l gast.FieldList) []inputNode {
	out := make([]inputNode, len(l))
	for i, a := range l {
		out[i] = inputNode{name: a.Name, description: a.Description, t: a.Type, def: a.DefaultValue, dirs: a.Directives}
	}
	return out
}

func reasonValue(dl gast.DirectiveList) any {
	dep, r := gqlDeprecation(dl)
	if !dep || r == nil {
		return nil
	}
	return *r
}

// Resolve implements ref.FieldResolver.
func (ir *introResolver) Resolve(obj *ref.Obj, parentDef *gast.Definition, fd *gast.FieldDefinition, args map[string]any, path []any) (any, error) {
	s := ir.s
	node := ir.nodes[obj.ID]
	switch obj.Type {
	case "__Schema":
		switch fd.Name {
		case "description":
			return strOrNil(s.Description), nil
		case "types":
			names := make([]string, 0, len(s.Types))
			for n := range s.Types {
				if !strings.HasPrefix(n, "__") { // introspection's own types are not "the schema's types" (see Assumptions)
					names = append(names, n)
				}
			}
			ir.docOrder(names)
			out := make([]any, len(names))
			for i, n := range names {
				out[i] = ir.namedType(n)
			}
			return out, nil
		case "queryType":
			if s.Query == nil {
				return nil, nil
			}
			return ir.namedType(s.Query.Name), nil
		case "mutationType":
			if s.Mutation == nil {
				return nil, nil
			}
			return ir.namedType(s.Mutation.Name), nil
		case "subscriptionType":
			if s.Subscription == nil {
				return nil, nil
			}
			return ir.namedType(s.Subscription.Name), nil
		case "directives":
			names := make([]string, 0, len(s.Directives))
			for n := range s.Directives {
				names = append(names, n)
			}
			sort.Slice(names, func(a, b int) bool {
				da, db := s.Directives[names[a]], s.Directives[names[b]]
				ba, bb := builtinDirectiveOrder[names[a]], builtinDirectiveOrder[names[b]]
				if ba != bb {
					return ba < bb
				}
				if da.Position != nil && db.Position != nil && da.Position.Start != db.Position.Start {
					return da.Position.Start < db.Position.Start
				}
				return names[a] < names[b]
			})
			out := make([]any, len(names))
			for i, n := range names {
				out[i] = ir.obj("__Directive", s.Directives[n])
			}
			return out, nil
		}
	case "__Type":
		tn, _ := node.(typeNode)
		if tn.def == nil {
			// wrapper
			t := tn.t
			switch fd.Name {
			case "kind":
				if t.NonNull {
					return "NON_NULL", nil
				}
				return "LIST", nil
			case "ofType":
				if t.NonNull {
					inner := *t
					inner.NonNull = false
					return ir.typeOf(&inner), nil
				}
				return ir.typeOf(t.Elem), nil
			}
			return nil, nil // name, description, fields, … are null for wrappers
		}
		def := tn.def
		switch fd.Name {
		case "kind":
			return string(def.Kind), nil
		case "name":
			return def.Name, nil
		case "description":
			return strOrNil(def.Description), nil
		case "specifiedByURL":
			if sb := def.Directives.ForName("specifiedBy"); sb != nil && def.Kind == gast.Scalar {
				if a := sb.Arguments.ForName("url"); a != nil && a.Value != nil {
					return a.Value.Raw, nil
				}
			}
			return nil, nil
		case "isOneOf":
			if def.Kind != gast.InputObject {
				return nil, nil
			}
			return def.Directives.ForName("oneOf") != nil, nil
		case "fields":
			if def.Kind != gast.Object && def.Kind != gast.Interface {
				return nil, nil
			}
			out := []any{}
			for _, f := range def.Fields {
				if strings.HasPrefix(f.Name, "__") {
					continue
				}
				if dep, _ := gqlDeprecation(f.Directives); dep && !includeDeprecated(args) {
					continue
				}
				out = append(out, ir.obj("__Field", f))
			}
			return out, nil
		case "interfaces":
			if def.Kind != gast.Object && def.Kind != gast.Interface {
				return nil, nil
			}
			out := []any{}
			for _, i := range def.Interfaces {
				out = append(out, ir.namedType(i))
			}
			return out, nil
		case "possibleTypes":
			var names []string
			switch def.Kind {
			case gast.Union:
				names = append(names, def.Types...)
			case gast.Interface:
				for on, od := range s.Types {
					if od.Kind != gast.Object {
						continue
					}
					for _, i := range od.Interfaces {
						if i == def.Name {
							names = append(names, on)
							break
						}
					}
				}
			default:
				return nil, nil
			}
			if def.Kind == gast.Interface {
				ir.docOrder(names)
			}
			out := []any{}
			for _, n := range names {
				out = append(out, ir.namedType(n))
			}
			return out, nil
		case "enumValues":
			if def.Kind != gast.Enum {
				return nil, nil
			}
			out := []any{}
			for _, v := range def.EnumValues {
				if dep, _ := gqlDeprecation(v.Directives); dep && !includeDeprecated(args) {
					continue
				}
				out = append(out, ir.obj("__EnumValue", v))
			}
			return out, nil
		case "inputFields":
			if def.Kind != gast.InputObject {
				return nil, nil
			}
			return ir.inputList(args, fieldNodes(def.Fields)), nil
		case "ofType":
			return nil, nil
		}
	case "__Field":
		f, _ := node.(*gast.FieldDefinition)
		if f == nil {
			break
		}
		switch fd.Name {
		case "name":
			return f.Name, nil
		case "description":
			return strOrNil(f.Description), nil
		case "args":
			return ir.inputList(args, argNodes(f.Arguments)), nil
		case "type":
			return ir.typeOf(f.Type), nil
		case "isDeprecated":
			dep, _ := gqlDeprecation(f.Directives)
			return dep, nil
		case "deprecationReason":
			return reasonValue(f.Directives), nil
		}
	case "__InputValue":
		in, _ := node.(inputNode)
		switch fd.Name {
		case "name":
			return in.name, nil
		case "description":
			return strOrNil(in.description), nil
		case "type":
			return ir.typeOf(in.t), nil
		case "defaultValue":
			if in.def == nil {
				return nil, nil
			}
			return in.def.String(), nil
		case "isDeprecated":
			dep, _ := gqlDeprecation(in.dirs)
			return dep, nil
		case "deprecationReason":
			return reasonValue(in.dirs), nil
		}
	case "__EnumValue":
		v, _ := node.(*gast.EnumValueDefinition)
		if v == nil {
			break
		}
		switch fd.Name {
		case "name":
			return v.Name, nil
		case "description":
			return strOrNil(v.Description), nil
		case "isDeprecated":
			dep, _ := gqlDeprecation(v.Directives)
			return dep, nil
		case "deprecationReason":
			return reasonValue(v.Directives), nil
		}
	case "__Directive":
		d, _ := node.(*gast.DirectiveDefinition)
		if d == nil {
			break
		}
		switch fd.Name {
		case "name":
			return d.Name, nil
		case "description":
			return strOrNil(d.Description), nil
		case "isRepeatable":
			return d.IsRepeatable, nil
		case "locations":
			out := make([]any, len(d.Locations))
			for i, l := range d.Locations {
				out[i] = string(l)
			}
			return out, nil
		case "args":
			return ir.inputList(args, argNodes(d.Arguments)), nil
		}
	default:
		// a root operation type
		switch fd.Name {
		case "__schema":
			return ir.obj("__Schema", nil), nil
		case "__type":
			name, _ := args["name"].(string)
			return ir.namedType(name), nil
		}
	}
	return nil, fmt.Errorf("reference introspection: no resolver for %s.%s", obj.Type, fd.Name)
}
