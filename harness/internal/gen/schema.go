// Package gen holds the seeded generators shared by the engine-level properties: schemas,
// values (with their spelling), operations that are valid by construction, and rule-targeted
// mutations. Validity is an invariant of the construction, not a filter (see notes/generators.md).
package gen

import (
	"fmt"
	"math/rand/v2"
	"sort"
	"strings"
)

type Kind int

const (
	Scalar Kind = iota
	Enum
	Input
	Interface
	Object
	Union
)

// TypeRef is a GraphQL type reference. Exactly one of Name / Elem is set.
type TypeRef struct {
	Name    string
	Elem    *TypeRef
	NonNull bool
}

func Named(n string, nonNull bool) *TypeRef { return &TypeRef{Name: n, NonNull: nonNull} }
func ListOf(e *TypeRef, nonNull bool) *TypeRef { return &TypeRef{Elem: e, NonNull: nonNull} }

func (t *TypeRef) String() string {
	s := ""
	if t.Elem != nil {
		s = "[" + t.Elem.String() + "]"
	} else {
		s = t.Name
	}
	if t.NonNull {
		s += "!"
	}
	return s
}

func (t *TypeRef) NamedType() string {
	for t.Elem != nil {
		t = t.Elem
	}
	return t.Name
}

func (t *TypeRef) Nullable() *TypeRef { c := *t; c.NonNull = false; return &c }
func (t *TypeRef) Required() *TypeRef { c := *t; c.NonNull = true; return &c }
func (t *TypeRef) IsList() bool       { return t.Elem != nil }

type Arg struct {
	Name        string
	Type        *TypeRef
	Default     *Val // const value, nil = no default
	Description string
	Deprecated  *string
}

type Field struct {
	Name        string
	Args        []*Arg
	Type        *TypeRef
	Description string
	Deprecated  *string
}

func (f *Field) Arg(name string) *Arg {
	for _, a := range f.Args {
		if a.Name == name {
			return a
		}
	}
	return nil
}

type EnumVal struct {
	Name        string
	Description string
	Deprecated  *string
}

type TypeDef struct {
	Name        string
	Kind        Kind
	Fields      []*Field // Object, Interface
	Interfaces  []string // Object, Interface
	Members     []string // Union
	EnumValues  []EnumVal
	InputFields []*Arg // Input
	OneOf       bool
	Description string
	SpecifiedBy string
}

func (t *TypeDef) Field(name string) *Field {
	for _, f := range t.Fields {
		if f.Name == name {
			return f
		}
	}
	return nil
}

func (t *TypeDef) InputField(name string) *Arg {
	for _, f := range t.InputFields {
		if f.Name == name {
			return f
		}
	}
	return nil
}

type DirectiveDef struct {
	Name        string
	Args        []*Arg
	Repeatable  bool
	Locations   []string
	Description string
}

type Schema struct {
	Types        []*TypeDef
	Directives   []*DirectiveDef
	Query        string
	Mutation     string
	Subscription string
	Description  string
	by           map[string]*TypeDef
}

func (s *Schema) Type(name string) *TypeDef {
	if s.by == nil {
		s.by = map[string]*TypeDef{}
		for _, t := range s.Types {
			s.by[t.Name] = t
		}
	}
	return s.by[name]
}

func (s *Schema) Add(t *TypeDef) {
	s.Types = append(s.Types, t)
	s.by = nil
}

var builtinScalars = map[string]bool{"Int": true, "Float": true, "String": true, "Boolean": true, "ID": true}

func IsBuiltinScalar(n string) bool { return builtinScalars[n] }

// KindOf returns the kind of a named type (builtin scalars included).
func (s *Schema) KindOf(name string) Kind {
	if builtinScalars[name] {
		return Scalar
	}
	if t := s.Type(name); t != nil {
		return t.Kind
	}
	return Scalar
}

func (s *Schema) IsLeaf(name string) bool {
	k := s.KindOf(name)
	return k == Scalar || k == Enum
}

func (s *Schema) IsComposite(name string) bool {
	k := s.KindOf(name)
	return k == Object || k == Interface || k == Union
}

func (s *Schema) IsInputType(name string) bool {
	k := s.KindOf(name)
	return k == Scalar || k == Enum || k == Input
}

// PossibleTypes returns the object types a composite type can be at runtime (sorted).
func (s *Schema) PossibleTypes(name string) []string {
	t := s.Type(name)
	if t == nil {
		return nil
	}
	switch t.Kind {
	case Object:
		return []string{name}
	case Union:
		out := append([]string(nil), t.Members...)
		sort.Strings(out)
		return out
	case Interface:
		var out []string
		for _, o := range s.Types {
			if o.Kind == Object && s.implements(o, name) {
				out = append(out, o.Name)
			}
		}
		sort.Strings(out)
		return out
	}
	return nil
}

func (s *Schema) implements(o *TypeDef, iface string) bool {
	for _, i := range o.Interfaces {
		if i == iface {
			return true
		}
	}
	return false
}

// Overlap reports whether two composite types share a possible runtime type.
func (s *Schema) Overlap(a, b string) bool {
	pa := s.PossibleTypes(a)
	set := map[string]bool{}
	for _, x := range pa {
		set[x] = true
	}
	for _, y := range s.PossibleTypes(b) {
		if set[y] {
			return true
		}
	}
	return false
}

// ---------------------------------------------------------------------------------------------
// SDL rendering

func descr(d string, indent string) string {
	if d == "" {
		return ""
	}
	if strings.ContainsAny(d, "\n\"\\") {
		return indent + `"""` + "\n" + indent + strings.ReplaceAll(strings.ReplaceAll(d, `"""`, `\"""`), "\n", "\n"+indent) + "\n" + indent + `"""` + "\n"
	}
	return indent + `"` + d + `"` + "\n"
}

func deprecated(d *string) string {
	if d == nil {
		return ""
	}
	if *d == "" {
		return " @deprecated"
	}
	return fmt.Sprintf(" @deprecated(reason: %q)", *d)
}

func (a *Arg) sdl(indent string, inline bool) string {
	var sb strings.Builder
	if a.Description != "" {
		if inline {
			sb.WriteString(strings.TrimRight(descr(a.Description, ""), "\n") + " ")
		} else {
			sb.WriteString(descr(a.Description, indent))
		}
	}
	if !inline {
		sb.WriteString(indent)
	}
	sb.WriteString(a.Name + ": " + a.Type.String())
	if a.Default != nil {
		sb.WriteString(" = " + a.Default.Literal())
	}
	sb.WriteString(deprecated(a.Deprecated))
	return sb.String()
}

func argsSDL(args []*Arg) string {
	if len(args) == 0 {
		return ""
	}
	parts := make([]string, len(args))
	for i, a := range args {
		parts[i] = a.sdl("", true)
	}
	return "(" + strings.Join(parts, ", ") + ")"
}

func (s *Schema) SDL() string {
	var sb strings.Builder
	needSchemaDef := s.Query != "Query" || (s.Mutation != "" && s.Mutation != "Mutation") || (s.Subscription != "" && s.Subscription != "Subscription") || s.Description != ""
	if needSchemaDef {
		sb.WriteString(descr(s.Description, ""))
		sb.WriteString("schema { query: " + s.Query)
		if s.Mutation != "" {
			sb.WriteString(" mutation: " + s.Mutation)
		}
		if s.Subscription != "" {
			sb.WriteString(" subscription: " + s.Subscription)
		}
		sb.WriteString(" }\n")
	}
	for _, d := range s.Directives {
		sb.WriteString(descr(d.Description, ""))
		sb.WriteString("directive @" + d.Name + argsSDL(d.Args))
		if d.Repeatable {
			sb.WriteString(" repeatable")
		}
		sb.WriteString(" on " + strings.Join(d.Locations, " | ") + "\n")
	}
	for _, t := range s.Types {
		sb.WriteString(descr(t.Description, ""))
		switch t.Kind {
		case Scalar:
			sb.WriteString("scalar " + t.Name)
			if t.SpecifiedBy != "" {
				sb.WriteString(fmt.Sprintf(" @specifiedBy(url: %q)", t.SpecifiedBy))
			}
			sb.WriteString("\n")
		case Enum:
			sb.WriteString("enum " + t.Name + " {\n")
			for _, v := range t.EnumValues {
				sb.WriteString(descr(v.Description, "  "))
				sb.WriteString("  " + v.Name + deprecated(v.Deprecated) + "\n")
			}
			sb.WriteString("}\n")
		case Input:
			sb.WriteString("input " + t.Name)
			if t.OneOf {
				sb.WriteString(" @oneOf")
			}
			sb.WriteString(" {\n")
			for _, f := range t.InputFields {
				sb.WriteString(f.sdl("  ", false) + "\n")
			}
			sb.WriteString("}\n")
		case Interface, Object:
			if t.Kind == Interface {
				sb.WriteString("interface " + t.Name)
			} else {
				sb.WriteString("type " + t.Name)
			}
			if len(t.Interfaces) > 0 {
				sb.WriteString(" implements " + strings.Join(t.Interfaces, " & "))
			}
			sb.WriteString(" {\n")
			for _, f := range t.Fields {
				sb.WriteString(descr(f.Description, "  "))
				sb.WriteString("  " + f.Name + argsSDL(f.Args) + ": " + f.Type.String() + deprecated(f.Deprecated) + "\n")
			}
			sb.WriteString("}\n")
		case Union:
			sb.WriteString("union " + t.Name + " = " + strings.Join(t.Members, " | ") + "\n")
		}
	}
	return sb.String()
}

// ---------------------------------------------------------------------------------------------
// generator

type SchemaProfile struct {
	Objects, Interfaces, Unions, Enums, Inputs, Scalars int
	MaxFields                                           int
	MaxArgs                                             int
	ListDepth                                           int  // max list nesting of output fields
	Keywords                                            bool // keyword-spelled names
	ExecDirectives                                      bool // 1-3 custom directive definitions, mostly on executable locations (also without Full)
	Full                                                bool // descriptions, deprecations, directive definitions, specifiedBy, interfaces implementing interfaces, schema description
	OneOf                                               bool
	Mutation, Subscription                              bool
	CustomRoots                                         bool // root types not named Query/Mutation/Subscription
}

func DefaultProfile(r *rand.Rand) SchemaProfile {
	return SchemaProfile{Objects: 2 + r.IntN(4), Interfaces: r.IntN(3), Unions: r.IntN(2), Enums: 1 + r.IntN(2), Inputs: 1 + r.IntN(3), Scalars: r.IntN(2),
		MaxFields: 3 + r.IntN(4), MaxArgs: 2, ListDepth: 2, OneOf: r.IntN(2) == 0, Mutation: r.IntN(2) == 0}
}

type schemaGen struct {
	r     *rand.Rand
	p     SchemaProfile
	s     *Schema
	names map[string]bool
	fld   int
}

var typeNamePool = []string{"User", "Product", "Review", "Order", "Item", "Node", "Account", "Post", "Comment", "Thing", "Widget", "Gadget", "Planet", "Ship"}
var fieldNamePool = []string{"name", "title", "count", "price", "active", "score", "tags", "owner", "items", "parent", "related", "info", "value", "status", "kind_", "f_1", "longFieldName_0123456789", "x", "y", "z"}
var keywordFieldNames = []string{"query", "mutation", "subscription", "fragment", "on", "type", "input", "enum", "schema", "implements", "extend", "directive"}

func (g *schemaGen) uniqueType(base string) string {
	n := base
	for i := 2; g.names[n]; i++ {
		n = fmt.Sprintf("%s%d", base, i)
	}
	g.names[n] = true
	return n
}

func (g *schemaGen) typeName() string {
	return g.uniqueType(typeNamePool[g.r.IntN(len(typeNamePool))])
}

func (g *schemaGen) fieldName(used map[string]bool) string {
	for {
		var n string
		if g.p.Keywords && g.r.IntN(4) == 0 {
			n = keywordFieldNames[g.r.IntN(len(keywordFieldNames))]
		} else {
			n = fieldNamePool[g.r.IntN(len(fieldNamePool))]
		}
		if used[n] {
			g.fld++
			n = fmt.Sprintf("%s%d", n, g.fld)
		}
		if !used[n] {
			used[n] = true
			return n
		}
	}
}

func (g *schemaGen) maybeDesc(what string) string {
	if !g.p.Full || g.r.IntN(3) != 0 {
		return ""
	}
	switch g.r.IntN(4) {
	case 0:
		return "The " + what
	case 1:
		return "multi\nline " + what
	case 2:
		return `with "quotes" ` + what
	default:
		return "unicode é中 " + what
	}
}

func (g *schemaGen) maybeDeprecated() *string {
	if !g.p.Full || g.r.IntN(5) != 0 {
		return nil
	}
	s := []string{"", "use other", "No longer supported"}[g.r.IntN(3)]
	return &s
}

func (g *schemaGen) wrapOutput(named string, depth int) *TypeRef {
	t := Named(named, g.r.IntN(3) == 0)
	for d := 0; d < depth; d++ {
		t = ListOf(t, g.r.IntN(3) == 0)
	}
	return t
}

func (g *schemaGen) leafTypes() []string {
	out := []string{"Int", "Float", "String", "Boolean", "ID"}
	for _, t := range g.s.Types {
		if t.Kind == Scalar || t.Kind == Enum {
			out = append(out, t.Name)
		}
	}
	return out
}

func (g *schemaGen) inputTypes() []string {
	out := g.leafTypes()
	for _, t := range g.s.Types {
		if t.Kind == Input {
			out = append(out, t.Name)
		}
	}
	return out
}

func (g *schemaGen) inputTypeRef(candidates []string, allowNonNull bool) *TypeRef {
	n := candidates[g.r.IntN(len(candidates))]
	t := Named(n, allowNonNull && g.r.IntN(3) == 0)
	depth := 0
	switch g.r.IntN(6) {
	case 0:
		depth = 1
	case 1:
		if g.p.ListDepth >= 2 {
			depth = 2
		}
	}
	for d := 0; d < depth; d++ {
		t.NonNull = g.r.IntN(2) == 0
		t = ListOf(t, allowNonNull && g.r.IntN(3) == 0)
	}
	return t
}

func (g *schemaGen) args(n int) []*Arg {
	var out []*Arg
	used := map[string]bool{}
	for i := 0; i < n; i++ {
		a := &Arg{Name: g.fieldName(used), Type: g.inputTypeRef(g.inputTypes(), true), Description: g.maybeDesc("argument")}
		if g.r.IntN(3) == 0 {
			a.Default = ConstValue(g.r, g.s, a.Type, 0)
		}
		if g.p.Full && (a.Default != nil || !a.Type.NonNull) {
			a.Deprecated = g.maybeDeprecated()
		}
		out = append(out, a)
	}
	return out
}

// GenSchema builds a well-formed schema. Construction order guarantees well-formedness (see
// notes/generators.md): scalars/enums → inputs → interfaces → objects → unions → roots.
func GenSchema(r *rand.Rand, p SchemaProfile) *Schema {
	g := &schemaGen{r: r, p: p, s: &Schema{}, names: map[string]bool{"Query": true, "Mutation": true, "Subscription": true, "Int": true, "Float": true, "String": true, "Boolean": true, "ID": true}}
	s := g.s
	if p.Full && r.IntN(3) == 0 {
		s.Description = "schema description"
	}
	for i := 0; i < p.Scalars; i++ {
		t := &TypeDef{Name: g.uniqueType([]string{"DateTime", "JSON", "URL", "Blob"}[r.IntN(4)]), Kind: Scalar, Description: g.maybeDesc("scalar")}
		if p.Full && r.IntN(2) == 0 {
			t.SpecifiedBy = "https://example.com/" + t.Name
		}
		s.Add(t)
	}
	for i := 0; i < p.Enums; i++ {
		t := &TypeDef{Name: g.uniqueType([]string{"Color", "Status", "Role", "Episode"}[r.IntN(4)]), Kind: Enum, Description: g.maybeDesc("enum")}
		n := 2 + r.IntN(3)
		pool := []string{"RED", "GREEN", "BLUE", "ACTIVE", "INACTIVE", "ADMIN", "on", "query", "A_1"}
		r.Shuffle(len(pool), func(a, b int) { pool[a], pool[b] = pool[b], pool[a] })
		for j := 0; j < n; j++ {
			t.EnumValues = append(t.EnumValues, EnumVal{Name: pool[j], Description: g.maybeDesc("enum value"), Deprecated: g.maybeDeprecated()})
		}
		// at least one value must stay non-deprecated for sensible defaults
		t.EnumValues[0].Deprecated = nil
		s.Add(t)
	}
	// input objects: declare all first (so forward references are possible through nullable positions)
	var inputs []*TypeDef
	for i := 0; i < p.Inputs; i++ {
		t := &TypeDef{Name: g.uniqueType([]string{"Filter", "Opts", "Point", "Range", "Patch"}[r.IntN(5)] + "Input"), Kind: Input, Description: g.maybeDesc("input")}
		inputs = append(inputs, t)
		s.Add(t)
	}
	for i, t := range inputs {
		used := map[string]bool{}
		if p.OneOf && i == len(inputs)-1 && r.IntN(2) == 0 {
			t.OneOf = true
			n := 2 + r.IntN(2)
			for j := 0; j < n; j++ {
				// oneOf members: nullable, no defaults; may refer to earlier inputs and leaves
				cands := g.leafTypes()
				for _, e := range inputs[:i] {
					cands = append(cands, e.Name)
				}
				ft := g.inputTypeRef(cands, false)
				ft.NonNull = false
				t.InputFields = append(t.InputFields, &Arg{Name: g.fieldName(used), Type: ft, Description: g.maybeDesc("member")})
			}
			continue
		}
		n := 1 + r.IntN(4)
		for j := 0; j < n; j++ {
			cands := g.leafTypes()
			for _, e := range inputs[:i] {
				cands = append(cands, e.Name) // earlier inputs: any position
			}
			var ft *TypeRef
			if r.IntN(5) == 0 {
				// self / forward reference only through a nullable position (no non-null cycle)
				target := inputs[i+r.IntN(len(inputs)-i)]
				if !target.OneOf || true {
					ft = Named(target.Name, false)
					if r.IntN(2) == 0 {
						ft = ListOf(Named(target.Name, r.IntN(2) == 0), false)
					}
				}
			} else {
				ft = g.inputTypeRef(cands, true)
			}
			f := &Arg{Name: g.fieldName(used), Type: ft, Description: g.maybeDesc("input field")}
			t.InputFields = append(t.InputFields, f)
		}
	}
	// defaults for input fields only after all inputs exist (a default may need nested objects);
	// only for fields whose type does not (transitively) reach the input itself, to avoid default cycles.
	for i, t := range inputs {
		if t.OneOf {
			continue
		}
		for _, f := range t.InputFields {
			nt := f.Type.NamedType()
			if s.KindOf(nt) == Input {
				// only earlier inputs are cycle-free by construction
				idx := -1
				for k, e := range inputs {
					if e.Name == nt {
						idx = k
					}
				}
				if idx >= i {
					continue
				}
			}
			if r.IntN(3) == 0 {
				f.Default = GenValue(r, s, f.Type, 0, ValueOpts{Const: true, NoSingleton: true, Shallow: true})
			}
			if p.Full && (f.Default != nil || !f.Type.NonNull) {
				f.Deprecated = g.maybeDeprecated()
			}
		}
	}
	// interfaces
	var ifaces []*TypeDef
	for i := 0; i < p.Interfaces; i++ {
		t := &TypeDef{Name: g.uniqueType([]string{"Node", "Entity", "Named", "Timestamped"}[r.IntN(4)]), Kind: Interface, Description: g.maybeDesc("interface")}
		used := map[string]bool{}
		if p.Full && i > 0 && r.IntN(2) == 0 {
			// interface implementing an earlier interface: copy its fields
			parent := ifaces[r.IntN(i)]
			t.Interfaces = append(append([]string{}, parent.Interfaces...), parent.Name)
			for _, f := range parent.Fields {
				cp := *f
				t.Fields = append(t.Fields, &cp)
				used[f.Name] = true
			}
		}
		n := 1 + r.IntN(3)
		for j := 0; j < n; j++ {
			leaf := g.leafTypes()
			f := &Field{Name: fmt.Sprintf("i%d_%s", i, g.fieldName(used)), Type: g.wrapOutput(leaf[r.IntN(len(leaf))], pickDepth(r, p.ListDepth)), Description: g.maybeDesc("interface field"), Deprecated: g.maybeDeprecated()}
			if r.IntN(4) == 0 {
				f.Args = g.args(1 + r.IntN(p.MaxArgs))
			}
			t.Fields = append(t.Fields, f)
		}
		ifaces = append(ifaces, t)
		s.Add(t)
	}
	// objects: names first
	var objs []*TypeDef
	for i := 0; i < p.Objects; i++ {
		t := &TypeDef{Name: g.typeName(), Kind: Object, Description: g.maybeDesc("object")}
		objs = append(objs, t)
		s.Add(t)
	}
	// every interface gets at least one implementer
	implOf := map[string][]*TypeDef{}
	for _, it := range ifaces {
		o := objs[r.IntN(len(objs))]
		implOf[it.Name] = append(implOf[it.Name], o)
	}
	for _, o := range objs {
		for _, it := range ifaces {
			if r.IntN(3) == 0 {
				implOf[it.Name] = append(implOf[it.Name], o)
			}
		}
	}
	for _, it := range ifaces {
		for _, o := range implOf[it.Name] {
			add := append(append([]string{}, it.Interfaces...), it.Name)
			for _, a := range add {
				if !s.implements(o, a) {
					o.Interfaces = append(o.Interfaces, a)
				}
			}
		}
	}
	// unions (of objects)
	var unions []*TypeDef
	for i := 0; i < p.Unions; i++ {
		t := &TypeDef{Name: g.uniqueType([]string{"SearchResult", "Media", "Either"}[r.IntN(3)]), Kind: Union, Description: g.maybeDesc("union")}
		perm := r.Perm(len(objs))
		n := 1 + r.IntN(min(3, len(objs)))
		for _, k := range perm[:n] {
			t.Members = append(t.Members, objs[k].Name)
		}
		unions = append(unions, t)
		s.Add(t)
	}
	var composites []string
	for _, t := range objs {
		composites = append(composites, t.Name)
	}
	for _, t := range ifaces {
		composites = append(composites, t.Name)
	}
	for _, t := range unions {
		composites = append(composites, t.Name)
	}
	// object fields
	for _, o := range objs {
		used := map[string]bool{}
		// interface fields first: identical name/args; covariant type (same type here, sometimes non-null strengthened)
		for _, in := range o.Interfaces {
			it := s.Type(in)
			for _, f := range it.Fields {
				if used[f.Name] {
					continue
				}
				used[f.Name] = true
				cp := *f
				if r.IntN(4) == 0 && !cp.Type.NonNull {
					cp.Type = cp.Type.Required()
				}
				cp.Description = g.maybeDesc("object field")
				o.Fields = append(o.Fields, &cp)
			}
		}
		n := 2 + r.IntN(p.MaxFields)
		for j := 0; j < n; j++ {
			var named string
			if r.IntN(3) == 0 {
				named = composites[r.IntN(len(composites))]
			} else {
				leaf := g.leafTypes()
				named = leaf[r.IntN(len(leaf))]
			}
			f := &Field{Name: g.fieldName(used), Type: g.wrapOutput(named, pickDepth(r, p.ListDepth)), Description: g.maybeDesc("field"), Deprecated: g.maybeDeprecated()}
			if r.IntN(3) == 0 {
				f.Args = g.args(1 + r.IntN(p.MaxArgs))
			}
			o.Fields = append(o.Fields, f)
		}
	}
	// roots
	s.Query = "Query"
	if p.CustomRoots {
		s.Query = g.uniqueType("RootQuery")
	}
	q := &TypeDef{Name: s.Query, Kind: Object}
	used := map[string]bool{}
	// one field per composite type so that everything is reachable, plus a few leaves with arguments
	for _, c := range composites {
		depth := 0
		if r.IntN(2) == 0 {
			depth = 1
		}
		f := &Field{Name: g.fieldName(used), Type: g.wrapOutput(c, depth)}
		if r.IntN(2) == 0 {
			f.Args = g.args(1 + r.IntN(p.MaxArgs))
		}
		q.Fields = append(q.Fields, f)
	}
	for j := 0; j < 2; j++ {
		leaf := g.leafTypes()
		f := &Field{Name: g.fieldName(used), Type: g.wrapOutput(leaf[r.IntN(len(leaf))], pickDepth(r, p.ListDepth)), Args: g.args(1 + r.IntN(p.MaxArgs+1)), Deprecated: g.maybeDeprecated()}
		q.Fields = append(q.Fields, f)
	}
	// every input type is used by some root argument
	for _, in := range inputs {
		leaf := g.leafTypes()
		f := &Field{Name: g.fieldName(used), Type: g.wrapOutput(leaf[r.IntN(len(leaf))], 0), Args: []*Arg{{Name: "in", Type: g.wrapInputAround(in.Name)}}}
		q.Fields = append(q.Fields, f)
	}
	s.Add(q)
	if p.Mutation {
		s.Mutation = "Mutation"
		if p.CustomRoots {
			s.Mutation = g.uniqueType("RootMutation")
		}
		m := &TypeDef{Name: s.Mutation, Kind: Object}
		used := map[string]bool{}
		for j := 0; j < 2; j++ {
			named := composites[r.IntN(len(composites))]
			if r.IntN(2) == 0 {
				named = "Int"
			}
			m.Fields = append(m.Fields, &Field{Name: g.fieldName(used), Type: g.wrapOutput(named, 0), Args: g.args(1 + r.IntN(p.MaxArgs))})
		}
		s.Add(m)
	}
	if p.Subscription {
		s.Subscription = "Subscription"
		if p.CustomRoots {
			s.Subscription = g.uniqueType("RootSubscription")
		}
		m := &TypeDef{Name: s.Subscription, Kind: Object}
		used := map[string]bool{}
		for j := 0; j < 2; j++ {
			named := composites[r.IntN(len(composites))]
			m.Fields = append(m.Fields, &Field{Name: g.fieldName(used), Type: g.wrapOutput(named, 0)})
		}
		s.Add(m)
	}
	if p.ExecDirectives && !p.Full {
		n := 1 + r.IntN(3)
		locs := []string{"QUERY", "MUTATION", "SUBSCRIPTION", "FIELD", "FRAGMENT_DEFINITION", "FRAGMENT_SPREAD", "INLINE_FRAGMENT", "FIELD", "FRAGMENT_SPREAD", "INLINE_FRAGMENT", "OBJECT", "FIELD_DEFINITION"}
		for i := 0; i < n; i++ {
			d := &DirectiveDef{Name: fmt.Sprintf("%s%d", []string{"auth", "cache", "tag"}[r.IntN(3)], i), Repeatable: r.IntN(3) == 0}
			seen := map[string]bool{}
			k := 1 + r.IntN(4)
			for _, x := range r.Perm(len(locs))[:k] {
				if !seen[locs[x]] {
					seen[locs[x]] = true
					d.Locations = append(d.Locations, locs[x])
				}
			}
			sort.Strings(d.Locations)
			if r.IntN(2) == 0 {
				d.Args = g.args(1 + r.IntN(2))
			}
			s.Directives = append(s.Directives, d)
		}
	}
	if p.Full {
		n := r.IntN(3)
		locs := []string{"QUERY", "MUTATION", "SUBSCRIPTION", "FIELD", "FRAGMENT_DEFINITION", "FRAGMENT_SPREAD", "INLINE_FRAGMENT", "VARIABLE_DEFINITION", "SCHEMA", "SCALAR", "OBJECT", "FIELD_DEFINITION", "ARGUMENT_DEFINITION", "INTERFACE", "UNION", "ENUM", "ENUM_VALUE", "INPUT_OBJECT", "INPUT_FIELD_DEFINITION"}
		for i := 0; i < n; i++ {
			d := &DirectiveDef{Name: fmt.Sprintf("%s%d", []string{"auth", "cache", "tag"}[r.IntN(3)], i), Repeatable: r.IntN(2) == 0, Description: g.maybeDesc("directive")}
			perm := r.Perm(len(locs))
			k := 1 + r.IntN(4)
			for _, x := range perm[:k] {
				d.Locations = append(d.Locations, locs[x])
			}
			sort.Strings(d.Locations)
			if r.IntN(2) == 0 {
				d.Args = g.args(1 + r.IntN(2))
			}
			s.Directives = append(s.Directives, d)
		}
	}
	return s
}

func (g *schemaGen) wrapInputAround(name string) *TypeRef {
	t := Named(name, g.r.IntN(2) == 0)
	if g.r.IntN(3) == 0 {
		t = ListOf(t, g.r.IntN(2) == 0)
	}
	return t
}

func pickDepth(r *rand.Rand, max int) int {
	switch r.IntN(6) {
	case 0, 1:
		if max >= 1 {
			return 1
		}
	case 2:
		if max >= 2 {
			return 2
		}
	}
	return 0
}
