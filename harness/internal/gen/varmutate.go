package gen

import (
	"bytes"
	"encoding/json"
	"math/rand/v2"
)

// VarMutation describes one coercion-targeted mutation of the variables object: afterwards the
// value of Var at Path is not coercible to its type (by the spec's input coercion rules).
type VarMutation struct {
	Kind     string
	Var      string
	Path     []any  // path inside the variable value (field names / indexes)
	Sentinel string // a marker string placed in the offending value where the kind allows it
}

var VarMutationKinds = []string{
	"null-in-non-null", "kind-swap", "unknown-input-field", "missing-required-input-field", "bad-enum-value",
	"enum-as-number", "oneof-two-members", "oneof-null-member", "oneof-no-member", "object-for-scalar",
	"list-for-input-object", "null-for-non-null-field-with-default", "missing-required-variable",
	"float-for-int", "int-out-of-range", "scalar-for-input-object",
}

const SentinelText = "SENTINELx7f3a91"

type varPos struct {
	v    string
	path []any
	t    *TypeRef
	// setter replaces the value at this position; del removes it (object fields / top-level variables)
	set func(x any)
	get func() any
}

func collectVarPositions(s *Schema, varName string, t *TypeRef, get func() any, set func(any), path []any, out *[]varPos) {
	*out = append(*out, varPos{v: varName, path: append([]any{}, path...), t: t, set: set, get: get})
	val := get()
	if val == nil {
		return
	}
	if t.Elem != nil {
		list, ok := val.([]any)
		if !ok {
			return // singleton coercion: leave alone
		}
		for i := range list {
			i := i
			collectVarPositions(s, varName, t.Elem, func() any { return list[i] }, func(x any) { list[i] = x }, append(path, i), out)
		}
		return
	}
	td := s.Type(t.Name)
	if td == nil || td.Kind != Input {
		return
	}
	obj, ok := val.(map[string]any)
	if !ok {
		return
	}
	for _, f := range td.InputFields {
		f := f
		if _, present := obj[f.Name]; !present {
			continue
		}
		collectVarPositions(s, varName, f.Type, func() any { return obj[f.Name] }, func(x any) { obj[f.Name] = x }, append(path, f.Name), out)
	}
}

func deepCopyJSON(v any) any {
	b, _ := json.Marshal(v)
	var out any
	dec := json.NewDecoder(bytes.NewReader(b))
	dec.UseNumber()
	_ = dec.Decode(&out)
	return out
}

// MutateVariables returns a deep copy of vars with one mutation of the given kind applied.
func MutateVariables(r *rand.Rand, s *Schema, defs []*VarDef, vars map[string]any, kind string) (map[string]any, VarMutation, bool) {
	out := deepCopyJSON(vars).(map[string]any)
	m := VarMutation{Kind: kind}
	if kind == "missing-required-variable" {
		var c []*VarDef
		for _, d := range defs {
			if _, ok := out[d.Name]; ok && d.Type.NonNull && d.Default == nil {
				c = append(c, d)
			}
		}
		if len(c) == 0 {
			return nil, m, false
		}
		d := c[r.IntN(len(c))]
		delete(out, d.Name)
		m.Var = d.Name
		return out, m, true
	}
	var pos []varPos
	for _, d := range defs {
		d := d
		if _, ok := out[d.Name]; !ok {
			continue
		}
		collectVarPositions(s, d.Name, d.Type, func() any { return out[d.Name] }, func(x any) { out[d.Name] = x }, nil, &pos)
	}
	isObjectOf := func(p varPos) (*TypeDef, map[string]any, bool) {
		if p.t.Elem != nil {
			return nil, nil, false
		}
		td := s.Type(p.t.Name)
		if td == nil || td.Kind != Input {
			return nil, nil, false
		}
		obj, ok := p.get().(map[string]any)
		return td, obj, ok
	}
	scalarName := func(p varPos) string {
		if p.t.Elem != nil || p.get() == nil {
			return ""
		}
		switch p.t.Name {
		case "Int", "Float", "String", "Boolean", "ID":
			return p.t.Name
		}
		return ""
	}
	isEnum := func(p varPos) bool {
		return p.t.Elem == nil && p.get() != nil && s.KindOf(p.t.Name) == Enum
	}
	var cands []varPos
	for _, p := range pos {
		ok := false
		switch kind {
		case "null-in-non-null":
			ok = p.t.NonNull
		case "kind-swap", "object-for-scalar":
			ok = scalarName(p) != ""
		case "float-for-int", "int-out-of-range":
			ok = scalarName(p) == "Int"
		case "bad-enum-value", "enum-as-number":
			ok = isEnum(p)
		case "unknown-input-field", "list-for-input-object", "scalar-for-input-object":
			td, _, isObj := isObjectOf(p)
			ok = isObj && (kind != "unknown-input-field" || !td.OneOf)
		case "missing-required-input-field":
			if td, obj, isObj := isObjectOf(p); isObj {
				for _, f := range td.InputFields {
					if _, present := obj[f.Name]; present && f.Type.NonNull && f.Default == nil {
						ok = true
					}
				}
			}
		case "null-for-non-null-field-with-default":
			if td, _, isObj := isObjectOf(p); isObj && !td.OneOf {
				for _, f := range td.InputFields {
					if f.Type.NonNull && f.Default != nil {
						ok = true
					}
				}
			}
		case "oneof-two-members", "oneof-null-member", "oneof-no-member":
			td, obj, isObj := isObjectOf(p)
			ok = isObj && td.OneOf && len(obj) == 1
		}
		if ok {
			cands = append(cands, p)
		}
	}
	if len(cands) == 0 {
		return nil, m, false
	}
	p := cands[r.IntN(len(cands))]
	m.Var, m.Path = p.v, p.path
	switch kind {
	case "null-in-non-null":
		p.set(nil)
	case "kind-swap":
		switch scalarName(p) {
		case "Int", "Float":
			p.set(SentinelText)
			m.Sentinel = SentinelText
		case "String":
			p.set(json.Number("123"))
		case "Boolean":
			p.set(SentinelText)
			m.Sentinel = SentinelText
		case "ID":
			p.set(true)
		}
	case "object-for-scalar":
		p.set(map[string]any{"zz": SentinelText})
		m.Sentinel = SentinelText
	case "float-for-int":
		p.set(json.Number("1.5"))
	case "int-out-of-range":
		p.set(json.Number("2147483648"))
	case "bad-enum-value":
		p.set(SentinelText)
		m.Sentinel = SentinelText
	case "enum-as-number":
		p.set(json.Number("1"))
	case "unknown-input-field":
		_, obj, _ := isObjectOf(p)
		obj["zzUnknownInputField"] = SentinelText
		m.Sentinel = SentinelText
		m.Path = append(append([]any{}, p.path...), "zzUnknownInputField")
	case "list-for-input-object":
		p.set([]any{[]any{p.get()}})
	case "scalar-for-input-object":
		p.set(SentinelText)
		m.Sentinel = SentinelText
	case "missing-required-input-field":
		td, obj, _ := isObjectOf(p)
		for _, f := range td.InputFields {
			if _, present := obj[f.Name]; present && f.Type.NonNull && f.Default == nil {
				delete(obj, f.Name)
				m.Path = append(append([]any{}, p.path...), f.Name)
				break
			}
		}
	case "null-for-non-null-field-with-default":
		td, obj, _ := isObjectOf(p)
		for _, f := range td.InputFields {
			if f.Type.NonNull && f.Default != nil {
				obj[f.Name] = nil
				m.Path = append(append([]any{}, p.path...), f.Name)
				break
			}
		}
	case "oneof-two-members":
		td, obj, _ := isObjectOf(p)
		added := false
		for _, f := range td.InputFields {
			if _, present := obj[f.Name]; !present {
				v := GenValue(r, s, f.Type.Required(), 3, ValueOpts{Const: true, NoSingleton: true})
				x, _ := v.JSON(nil)
				obj[f.Name] = x
				added = true
				break
			}
		}
		if !added {
			return nil, m, false
		}
	case "oneof-null-member":
		_, obj, _ := isObjectOf(p)
		for k := range obj {
			obj[k] = nil
			m.Path = append(append([]any{}, p.path...), k)
		}
	case "oneof-no-member":
		_, obj, _ := isObjectOf(p)
		for k := range obj {
			delete(obj, k)
		}
	}
	return out, m, true
}
