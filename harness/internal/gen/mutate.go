package gen

import (
	"fmt"
	"math/rand/v2"
)

// Mutation is the outcome of one rule-targeted mutation: the document now violates Rule (by
// design). UnderRemoved says the mutated node lies inside a selection that normalisation removes
// for the given variable values (static or variable-driven @skip/@include), which matters for
// triage only.
type Mutation struct {
	Rule         string
	Operator     string
	Site         string // root | nested | fragment
	UnderRemoved bool
	// Erased: normalisation (which evaluates @skip/@include with the request's variables, drops the
	// evaluated directives and removes variables whose uses disappeared) erases the mutated
	// construct before the validator sees it.
	Erased bool
}

// fieldSite is a field with its context.
type fieldSite struct {
	f        *FieldSel
	sels     *[]*Sel
	index    int
	parent   string
	depth    int
	inFrag   bool
	removed  bool // an enclosing selection (or the field itself) is removed by @skip/@include
}

type siteWalker struct {
	s      *Schema
	vars   map[string]any
	fields []fieldSite
	sets   []setSite
}

type setSite struct {
	sels    *[]*Sel
	parent  string
	depth   int
	inFrag  bool
	removed bool
}

func dirsRemove(dirs []*Dir, vars map[string]any) bool {
	for _, d := range dirs {
		if d.Name != "skip" && d.Name != "include" {
			continue
		}
		for _, a := range d.Args {
			if a.Name != "if" {
				continue
			}
			var b bool
			switch a.Val.Kind {
			case VBool:
				b = a.Val.Bool
			case VVar:
				x, _ := vars[a.Val.Str].(bool)
				b = x
			}
			if (d.Name == "skip" && b) || (d.Name == "include" && !b) {
				return true
			}
		}
	}
	return false
}

func (w *siteWalker) walk(sels *[]*Sel, parent string, depth int, inFrag, removed bool, doc *Doc, visiting map[string]bool) {
	w.sets = append(w.sets, setSite{sels, parent, depth, inFrag, removed})
	for i, x := range *sels {
		switch {
		case x.Field != nil:
			rem := removed || dirsRemove(x.Field.Dirs, w.vars)
			w.fields = append(w.fields, fieldSite{x.Field, sels, i, parent, depth, inFrag, rem})
			if len(x.Field.Sel) > 0 && x.Field.Def != nil {
				w.walk(&x.Field.Sel, x.Field.Def.Type.NamedType(), depth+1, inFrag, rem, doc, visiting)
			}
		case x.Inline != nil:
			p := x.Inline.On
			if p == "" {
				p = parent
			}
			w.walk(&x.Inline.Sel, p, depth, inFrag, removed || dirsRemove(x.Inline.Dirs, w.vars), doc, visiting)
		case x.Spread != nil:
			for _, fr := range doc.Frags {
				if fr.Name == x.Spread.Name && !visiting[fr.Name] {
					visiting[fr.Name] = true
					w.walk(&fr.Sel, fr.On, depth, true, removed || dirsRemove(x.Spread.Dirs, w.vars), doc, visiting)
					delete(visiting, fr.Name)
				}
			}
		}
	}
}

func rootType(s *Schema, op *Op) string {
	switch op.Kind {
	case "mutation":
		return s.Mutation
	case "subscription":
		return s.Subscription
	}
	return s.Query
}

func collectSites(s *Schema, doc *Doc, op *Op, vars map[string]any) *siteWalker {
	w := &siteWalker{s: s, vars: vars}
	w.walk(&op.Sel, rootType(s, op), 0, false, false, doc, map[string]bool{})
	return w
}

func siteName(depth int, inFrag bool) string {
	switch {
	case inFrag:
		return "fragment"
	case depth == 0:
		return "root"
	}
	return "nested"
}

// MutationOperators lists every operator name (for enumeration / evidence).
var MutationOperators = []string{
	"unknown-field", "selection-on-leaf", "no-selection-on-composite", "unknown-argument", "duplicate-argument",
	"missing-required-argument", "wrong-literal-kind", "unknown-enum-value", "string-for-enum", "undefined-variable",
	"unused-variable", "duplicate-variable", "variable-of-output-type", "variable-weaker-than-position", "unknown-fragment",
	"fragment-cycle", "fragment-on-non-composite", "impossible-spread", "conflict-different-field", "conflict-different-args",
	"conflict-different-type", "unknown-directive", "misplaced-directive", "duplicate-directive", "directive-missing-argument",
	"second-subscription-root", "subscription-typename-root", "duplicate-input-field", "unknown-input-field",
	"missing-required-input-field", "null-for-non-null-argument", "variable-default-wrong-type", "oneof-two-members", "oneof-null-member",
	"variable-type-mismatch", "conflict-three-selections", "misplaced-custom-directive", "variable-list-item-weaker",
}

// Mutate applies operator op to a clone of doc (first operation = the one executed, named opName
// when non-empty). ok=false: no eligible site.
func Mutate(r *rand.Rand, s *Schema, doc *Doc, opName string, vars map[string]any, operator string) (*Doc, Mutation, bool) {
	d := doc.Clone()
	var op *Op
	for _, o := range d.Ops {
		if o.Name == opName || opName == "" {
			op = o
			break
		}
	}
	if op == nil {
		return nil, Mutation{}, false
	}
	w := collectSites(s, d, op, vars)
	m := Mutation{Operator: operator}
	pickField := func(pred func(fs fieldSite) bool) (fieldSite, bool) {
		var c []fieldSite
		for _, fs := range w.fields {
			if pred(fs) {
				c = append(c, fs)
			}
		}
		if len(c) == 0 {
			return fieldSite{}, false
		}
		fs := c[r.IntN(len(c))]
		m.Site, m.UnderRemoved = siteName(fs.depth, fs.inFrag), fs.removed
		return fs, true
	}
	pickSet := func(pred func(ss setSite) bool) (setSite, bool) {
		var c []setSite
		for _, ss := range w.sets {
			if pred(ss) {
				c = append(c, ss)
			}
		}
		if len(c) == 0 {
			return setSite{}, false
		}
		ss := c[r.IntN(len(c))]
		m.Site, m.UnderRemoved = siteName(ss.depth, ss.inFrag), ss.removed
		return ss, true
	}
	hasDef := func(fs fieldSite) bool { return fs.f.Def != nil }
	isLeafField := func(fs fieldSite) bool { return fs.f.Def != nil && s.IsLeaf(fs.f.Def.Type.NamedType()) }
	isCompositeField := func(fs fieldSite) bool {
		return fs.f.Def != nil && s.IsComposite(fs.f.Def.Type.NamedType()) && len(fs.f.Sel) > 0
	}
	// the field is not a deliberate duplicate of another one in its set (otherwise editing one copy
	// creates a merge conflict instead of the intended rule violation — still invalid, but a different rule)
	append1 := func(ss setSite, sel *Sel) { *ss.sels = append(*ss.sels, sel) }

	switch operator {
	case "unknown-field":
		m.Rule = "FieldsOnCorrectType"
		fs, ok := pickField(hasDef)
		if !ok {
			return nil, m, false
		}
		fs.f.Name = "zzUnknownField"
		fs.f.Args, fs.f.Sel, fs.f.Def = nil, nil, nil
	case "selection-on-leaf":
		m.Rule = "ScalarLeafs"
		fs, ok := pickField(isLeafField)
		if !ok {
			return nil, m, false
		}
		fs.f.Sel = []*Sel{{Field: &FieldSel{Name: "__typename"}}}
	case "no-selection-on-composite":
		m.Rule = "ScalarLeafs"
		fs, ok := pickField(isCompositeField)
		if !ok {
			return nil, m, false
		}
		fs.f.Sel = nil
	case "unknown-argument":
		m.Rule = "KnownArgumentNames"
		fs, ok := pickField(hasDef)
		if !ok {
			return nil, m, false
		}
		fs.f.Args = append(cloneArgs(fs.f.Args), &ArgVal{Name: "zzUnknownArg", Val: IntV(1)})
	case "duplicate-argument":
		m.Rule = "UniqueArgumentNames"
		fs, ok := pickField(func(fs fieldSite) bool { return fs.f.Def != nil && len(fs.f.Args) > 0 })
		if !ok {
			return nil, m, false
		}
		a := fs.f.Args[r.IntN(len(fs.f.Args))]
		fs.f.Args = append(cloneArgs(fs.f.Args), &ArgVal{Name: a.Name, Val: cloneVal(a.Val)})
	case "missing-required-argument":
		m.Rule = "ProvidedRequiredArguments"
		fs, ok := pickField(func(fs fieldSite) bool {
			if fs.f.Def == nil {
				return false
			}
			for _, a := range fs.f.Args {
				if ad := fs.f.Def.Arg(a.Name); ad != nil && ad.Type.NonNull && ad.Default == nil {
					return true
				}
			}
			return false
		})
		if !ok {
			return nil, m, false
		}
		var keep []*ArgVal
		dropped := false
		for _, a := range fs.f.Args {
			ad := fs.f.Def.Arg(a.Name)
			if !dropped && ad != nil && ad.Type.NonNull && ad.Default == nil {
				dropped = true
				continue
			}
			keep = append(keep, a)
		}
		fs.f.Args = keep
	case "wrong-literal-kind", "unknown-enum-value", "string-for-enum", "null-for-non-null-argument", "duplicate-input-field", "unknown-input-field", "missing-required-input-field", "oneof-two-members", "oneof-null-member":
		m.Rule = "ValuesOfCorrectType"
		if operator == "duplicate-input-field" {
			m.Rule = "UniqueInputFieldNames"
		}
		type cand struct {
			fs fieldSite
			a  *ArgVal
			ad *Arg
		}
		var cands []cand
		for _, fs := range w.fields {
			if fs.f.Def == nil {
				continue
			}
			for _, a := range fs.f.Args {
				ad := fs.f.Def.Arg(a.Name)
				if ad == nil || a.Val.Kind == VVar {
					continue
				}
				nt := ad.Type.NamedType()
				k := s.KindOf(nt)
				switch operator {
				case "wrong-literal-kind":
					if !ad.Type.IsList() && (nt == "Int" || nt == "String" || nt == "Boolean" || nt == "Float" || k == Input) {
						cands = append(cands, cand{fs, a, ad})
					}
				case "unknown-enum-value", "string-for-enum":
					if !ad.Type.IsList() && k == Enum {
						cands = append(cands, cand{fs, a, ad})
					}
				case "null-for-non-null-argument":
					if ad.Type.NonNull {
						cands = append(cands, cand{fs, a, ad})
					}
				case "duplicate-input-field", "unknown-input-field":
					if !ad.Type.IsList() && k == Input && a.Val.Kind == VObject && (operator == "unknown-input-field" || len(a.Val.Fields) > 0) && !s.Type(nt).OneOf {
						cands = append(cands, cand{fs, a, ad})
					}
				case "missing-required-input-field":
					if !ad.Type.IsList() && k == Input && a.Val.Kind == VObject {
						for _, f := range a.Val.Fields {
							if fd := s.Type(nt).InputField(f.Name); fd != nil && fd.Type.NonNull && fd.Default == nil {
								cands = append(cands, cand{fs, a, ad})
								break
							}
						}
					}
				case "oneof-two-members", "oneof-null-member":
					if !ad.Type.IsList() && k == Input && s.Type(nt).OneOf && a.Val.Kind == VObject && len(a.Val.Fields) == 1 {
						cands = append(cands, cand{fs, a, ad})
					}
				}
			}
		}
		if len(cands) == 0 {
			return nil, m, false
		}
		c := cands[r.IntN(len(cands))]
		m.Site, m.UnderRemoved = siteName(c.fs.depth, c.fs.inFrag), c.fs.removed
		nt := c.ad.Type.NamedType()
		// the edited argument list must not be shared with a duplicate of the field
		c.fs.f.Args = cloneArgs(c.fs.f.Args)
		var a *ArgVal
		for _, x := range c.fs.f.Args {
			if x.Name == c.a.Name {
				a = x
			}
		}
		switch operator {
		case "wrong-literal-kind":
			switch {
			case nt == "Int" || nt == "Float" || nt == "Boolean":
				a.Val = StrV("not a number")
			case nt == "String":
				a.Val = IntV(123)
			default:
				a.Val = IntV(5)
			}
		case "unknown-enum-value":
			a.Val = EnumV("ZZ_UNKNOWN_VALUE")
		case "string-for-enum":
			a.Val = StrV(s.Type(nt).EnumValues[0].Name)
		case "null-for-non-null-argument":
			a.Val = Null()
		case "duplicate-input-field":
			f0 := a.Val.Fields[0]
			a.Val.Fields = append(a.Val.Fields, ObjField{f0.Name, cloneVal(f0.Val)})
		case "unknown-input-field":
			a.Val.Fields = append(a.Val.Fields, ObjField{"zzUnknownInputField", IntV(1)})
		case "missing-required-input-field":
			var keep []ObjField
			dropped := false
			for _, f := range a.Val.Fields {
				fd := s.Type(nt).InputField(f.Name)
				if !dropped && fd != nil && fd.Type.NonNull && fd.Default == nil {
					dropped = true
					continue
				}
				keep = append(keep, f)
			}
			a.Val.Fields = keep
		case "oneof-two-members":
			td := s.Type(nt)
			for _, f := range td.InputFields {
				if f.Name != a.Val.Fields[0].Name {
					a.Val.Fields = append(a.Val.Fields, ObjField{f.Name, GenValue(r, s, f.Type.Required(), 3, ValueOpts{Const: true, NoSingleton: true})})
					break
				}
			}
			if len(a.Val.Fields) < 2 {
				return nil, m, false
			}
		case "oneof-null-member":
			a.Val.Fields[0].Val = Null()
		}
	case "undefined-variable":
		m.Rule = "NoUndefinedVariables"
		fs, ok := pickField(func(fs fieldSite) bool { return fs.f.Def != nil && len(fs.f.Def.Args) > 0 })
		if !ok {
			return nil, m, false
		}
		ad := fs.f.Def.Args[r.IntN(len(fs.f.Def.Args))]
		args := cloneArgs(fs.f.Args)
		found := false
		for _, a := range args {
			if a.Name == ad.Name {
				a.Val = VarV("zzUndefined")
				found = true
			}
		}
		if !found {
			args = append(args, &ArgVal{Name: ad.Name, Val: VarV("zzUndefined")})
		}
		fs.f.Args = args
	case "unused-variable":
		m.Rule = "NoUnusedVariables"
		m.Site = "root"
		op.Vars = append(op.Vars, &VarDef{Name: "zzUnused", Type: Named("Int", false)})
	case "duplicate-variable":
		m.Rule = "UniqueVariableNames"
		m.Site = "root"
		if len(op.Vars) == 0 {
			return nil, m, false
		}
		v := op.Vars[r.IntN(len(op.Vars))]
		op.Vars = append(op.Vars, &VarDef{Name: v.Name, Type: v.Type})
		m.UnderRemoved = !varSurvives(w, v.Name)
	case "variable-of-output-type":
		m.Rule = "VariablesAreInputTypes"
		m.Site = "root"
		if len(op.Vars) == 0 {
			return nil, m, false
		}
		v := op.Vars[r.IntN(len(op.Vars))]
		v.Type = Named(s.Query, false)
		v.Default = nil
		m.UnderRemoved = !varSurvives(w, v.Name)
	case "variable-weaker-than-position", "variable-type-mismatch":
		m.Rule = "VariablesInAllowedPosition"
		// find a variable used directly as an argument at a non-null position without default
		type use struct {
			fs fieldSite
			a  *ArgVal
			ad *Arg
		}
		var uses []use
		for _, fs := range w.fields {
			if fs.f.Def == nil {
				continue
			}
			for _, a := range fs.f.Args {
				ad := fs.f.Def.Arg(a.Name)
				if ad == nil || a.Val.Kind != VVar {
					continue
				}
				if operator == "variable-weaker-than-position" && !(ad.Type.NonNull && ad.Default == nil) {
					continue
				}
				uses = append(uses, use{fs, a, ad})
			}
		}
		if len(uses) == 0 {
			return nil, m, false
		}
		u := uses[r.IntN(len(uses))]
		m.Site, m.UnderRemoved = siteName(u.fs.depth, u.fs.inFrag), u.fs.removed
		for _, v := range op.Vars {
			if v.Name == u.a.Val.Str {
				if operator == "variable-weaker-than-position" {
					v.Type = v.Type.Nullable()
					v.Default = nil
				} else {
					// a different named input type
					nt := "Int"
					if u.ad.Type.NamedType() == "Int" || u.ad.Type.NamedType() == "Float" || u.ad.Type.NamedType() == "ID" {
						nt = "Boolean"
					}
					v.Type = Named(nt, true)
					v.Default = nil
				}
			}
		}
	case "variable-list-item-weaker":
		// a variable whose list ITEMS are nullable used where the items are non-null ([T] at a [T!]
		// position, at any list depth): invalid whatever defaults exist (a default only excuses the
		// nullability of the position itself, never of the items below a list wrapper)
		m.Rule = "VariablesInAllowedPosition"
		type site struct {
			fs fieldSite
			ad *Arg
		}
		var sites, preferred []site
		for _, fs := range w.fields {
			if fs.f.Def == nil {
				continue
			}
			for _, ad := range fs.f.Def.Args {
				for t := ad.Type; t != nil && t.Elem != nil; t = t.Elem {
					if t.Elem.NonNull {
						sites = append(sites, site{fs, ad})
						if ad.Default != nil {
							preferred = append(preferred, site{fs, ad})
						}
						break
					}
				}
			}
		}
		if len(preferred) > 0 && r.IntN(3) != 0 {
			sites = preferred
		}
		if len(sites) == 0 {
			return nil, m, false
		}
		u := sites[r.IntN(len(sites))]
		m.Site, m.UnderRemoved = siteName(u.fs.depth, u.fs.inFrag), u.fs.removed
		// the argument's type with every list item made nullable
		var weaken func(t *TypeRef, top bool) *TypeRef
		weaken = func(t *TypeRef, top bool) *TypeRef {
			c := *t
			if !top {
				c.NonNull = false
			}
			if t.Elem != nil {
				c.Elem = weaken(t.Elem, false)
			}
			return &c
		}
		vt := weaken(u.ad.Type, true)
		vd := &VarDef{Name: "zzWeakItems", Type: vt}
		if vt.NonNull {
			vd.Default = &Val{Kind: VList}
		}
		op.Vars = append(op.Vars, vd)
		var args []*ArgVal
		for _, a := range u.fs.f.Args {
			if a.Name != u.ad.Name {
				args = append(args, a)
			}
		}
		u.fs.f.Args = append(args, &ArgVal{Name: u.ad.Name, Val: &Val{Kind: VVar, Str: vd.Name}})
	case "unknown-fragment":
		m.Rule = "KnownFragmentNames"
		ss, ok := pickSet(func(ss setSite) bool { return true })
		if !ok {
			return nil, m, false
		}
		append1(ss, &Sel{Spread: &Spread{Name: "ZZUnknownFragment"}})
	case "fragment-cycle":
		m.Rule = "NoFragmentCycles"
		ss, ok := pickSet(func(ss setSite) bool { return s.Type(ss.parent) != nil })
		if !ok {
			return nil, m, false
		}
		n := fmt.Sprintf("ZZCyc%d", r.IntN(1000))
		d.Frags = append(d.Frags,
			&Frag{Name: n + "A", On: ss.parent, Sel: []*Sel{{Field: &FieldSel{Name: "__typename"}}, {Spread: &Spread{Name: n + "B"}}}},
			&Frag{Name: n + "B", On: ss.parent, Sel: []*Sel{{Field: &FieldSel{Name: "__typename"}}, {Spread: &Spread{Name: n + "A"}}}})
		append1(ss, &Sel{Spread: &Spread{Name: n + "A"}})
	case "fragment-on-non-composite":
		m.Rule = "FragmentsOnCompositeTypes"
		ss, ok := pickSet(func(ss setSite) bool { return true })
		if !ok {
			return nil, m, false
		}
		cond := "String"
		for _, t := range s.Types {
			if (t.Kind == Enum || t.Kind == Input) && r.IntN(2) == 0 {
				cond = t.Name
			}
		}
		append1(ss, &Sel{Inline: &InlineFrag{On: cond, Sel: []*Sel{{Field: &FieldSel{Name: "__typename"}}}}})
	case "impossible-spread":
		m.Rule = "PossibleFragmentSpreads"
		ss, ok := pickSet(func(ss setSite) bool {
			td := s.Type(ss.parent)
			if td == nil {
				return false
			}
			for _, t := range s.Types {
				if t.Kind == Object && t.Name != s.Query && t.Name != s.Mutation && t.Name != s.Subscription && !s.Overlap(t.Name, ss.parent) {
					return true
				}
			}
			return false
		})
		if !ok {
			return nil, m, false
		}
		var others []string
		for _, t := range s.Types {
			if t.Kind == Object && t.Name != s.Query && t.Name != s.Mutation && t.Name != s.Subscription && !s.Overlap(t.Name, ss.parent) {
				others = append(others, t.Name)
			}
		}
		append1(ss, &Sel{Inline: &InlineFrag{On: others[r.IntN(len(others))], Sel: []*Sel{{Field: &FieldSel{Name: "__typename"}}}}})
	case "conflict-different-field", "conflict-different-args", "conflict-different-type":
		m.Rule = "OverlappingFieldsCanBeMerged"
		ss, ok := pickSet(func(ss setSite) bool {
			td := s.Type(ss.parent)
			if td == nil || td.Kind == Union {
				return false
			}
			leafs := 0
			withArgs := false
			types := map[string]bool{}
			for _, f := range td.Fields {
				if s.IsLeaf(f.Type.NamedType()) {
					required := false
					for _, a := range f.Args {
						if a.Type.NonNull && a.Default == nil {
							required = true
						}
					}
					if required {
						continue
					}
					leafs++
					types[f.Type.String()] = true
					for _, a := range f.Args {
						if a.Type.String() == "Int" || a.Type.String() == "String" || a.Type.String() == "Boolean" || a.Type.String() == "ID" || a.Type.String() == "Float" {
							withArgs = true
						}
					}
				}
			}
			switch operator {
			case "conflict-different-field":
				return leafs >= 2
			case "conflict-different-args":
				return withArgs
			default:
				return len(types) >= 2
			}
		})
		if !ok {
			return nil, m, false
		}
		td := s.Type(ss.parent)
		var leafs []*Field
		for _, f := range td.Fields {
			if !s.IsLeaf(f.Type.NamedType()) {
				continue
			}
			required := false
			for _, a := range f.Args {
				if a.Type.NonNull && a.Default == nil {
					required = true
				}
			}
			if !required {
				leafs = append(leafs, f)
			}
		}
		key := fmt.Sprintf("zzc%d", r.IntN(1000))
		switch operator {
		case "conflict-different-field":
			r.Shuffle(len(leafs), func(i, j int) { leafs[i], leafs[j] = leafs[j], leafs[i] })
			append1(ss, &Sel{Field: &FieldSel{Alias: key, Name: leafs[0].Name, Def: leafs[0], Parent: ss.parent}})
			append1(ss, &Sel{Field: &FieldSel{Alias: key, Name: leafs[1].Name, Def: leafs[1], Parent: ss.parent}})
		case "conflict-different-args":
			for _, f := range leafs {
				for _, a := range f.Args {
					ts := a.Type.String()
					var v1, v2 *Val
					switch ts {
					case "Int", "Float":
						v1, v2 = IntV(1), IntV(2)
					case "String", "ID":
						v1, v2 = StrV("x"), StrV("y")
					case "Boolean":
						v1, v2 = BoolV(true), BoolV(false)
					default:
						continue
					}
					append1(ss, &Sel{Field: &FieldSel{Alias: key, Name: f.Name, Def: f, Parent: ss.parent, Args: []*ArgVal{{a.Name, v1}}}})
					append1(ss, &Sel{Field: &FieldSel{Alias: key, Name: f.Name, Def: f, Parent: ss.parent, Args: []*ArgVal{{a.Name, v2}}}})
					return d, m, true
				}
			}
			return nil, m, false
		default:
			r.Shuffle(len(leafs), func(i, j int) { leafs[i], leafs[j] = leafs[j], leafs[i] })
			for _, f2 := range leafs[1:] {
				if f2.Type.String() != leafs[0].Type.String() {
					append1(ss, &Sel{Field: &FieldSel{Alias: key, Name: leafs[0].Name, Def: leafs[0], Parent: ss.parent}})
					append1(ss, &Sel{Field: &FieldSel{Alias: key, Name: f2.Name, Def: f2, Parent: ss.parent}})
					return d, m, true
				}
			}
			return nil, m, false
		}
	case "conflict-three-selections":
		// `... on A { k: f } k: f ... on B { k: g }` under an interface I with object implementers A, B:
		// the interface-level `k: f` and `... on B { k: g }` have overlapping parents and different field
		// names, so the operation is invalid; the leading `... on A { k: f }` is a valid decoy that
		// an order-dependent merge check has already seen when it reaches the offending pair.
		m.Rule = "OverlappingFieldsCanBeMerged"
		noReq := func(f *Field) bool {
			for _, a := range f.Args {
				if a.Type.NonNull && a.Default == nil {
					return false
				}
			}
			return true
		}
		type cand struct {
			ss   setSite
			a, b string
			f, g *Field
		}
		var cands []cand
		for _, ss := range w.sets {
			td := s.Type(ss.parent)
			if td == nil || td.Kind != Interface {
				continue
			}
			var impls []string
			for _, t := range s.Types {
				if t.Kind == Object && s.Overlap(t.Name, ss.parent) {
					impls = append(impls, t.Name)
				}
			}
			if len(impls) < 2 {
				continue
			}
			for _, f := range td.Fields {
				if !noReq(f) {
					continue
				}
				for _, bn := range impls {
					for _, g := range s.Type(bn).Fields {
						if g.Name == f.Name || !noReq(g) || s.IsComposite(g.Type.NamedType()) != s.IsComposite(f.Type.NamedType()) {
							continue
						}
						for _, an := range impls {
							if an != bn && s.Type(an).Field(f.Name) != nil {
								cands = append(cands, cand{ss, an, bn, f, g})
							}
						}
					}
				}
			}
		}
		if len(cands) == 0 {
			return nil, m, false
		}
		c := cands[r.IntN(len(cands))]
		m.Site, m.UnderRemoved = siteName(c.ss.depth, c.ss.inFrag), c.ss.removed
		key := fmt.Sprintf("zzc%d", r.IntN(1000))
		mk := func(parent string, f *Field) *Sel {
			fs := &FieldSel{Alias: key, Name: f.Name, Def: f, Parent: parent}
			if s.IsComposite(f.Type.NamedType()) {
				fs.Sel = []*Sel{{Field: &FieldSel{Name: "__typename", Parent: f.Type.NamedType()}}}
			}
			return &Sel{Field: fs}
		}
		append1(c.ss, &Sel{Inline: &InlineFrag{On: c.a, Parent: c.ss.parent, Sel: []*Sel{mk(c.a, s.Type(c.a).Field(c.f.Name))}}})
		append1(c.ss, mk(c.ss.parent, c.f))
		append1(c.ss, &Sel{Inline: &InlineFrag{On: c.b, Parent: c.ss.parent, Sel: []*Sel{mk(c.b, c.g)}}})
	case "misplaced-custom-directive":
		// a schema-defined directive (no required arguments) on an executable location its definition does not list
		m.Rule = "KnownDirectives"
		usable := func(d *DirectiveDef, loc string) bool {
			for _, a := range d.Args {
				if a.Type.NonNull && a.Default == nil {
					return false
				}
			}
			for _, l := range d.Locations {
				if l == loc {
					return false
				}
			}
			return true
		}
		pickDir := func(loc string) *Dir {
			var c []*DirectiveDef
			for _, d := range s.Directives {
				if usable(d, loc) {
					c = append(c, d)
				}
			}
			if len(c) == 0 {
				return nil
			}
			return &Dir{Name: c[r.IntN(len(c))].Name}
		}
		type inlSite struct {
			in      *InlineFrag
			removed bool
		}
		type sprSite struct {
			sp      *Spread
			removed bool
		}
		var inls []inlSite
		var sprs []sprSite
		var walkSel func(sels []*Sel, seen map[string]bool, removed bool)
		walkSel = func(sels []*Sel, seen map[string]bool, removed bool) {
			for _, x := range sels {
				switch {
				case x.Field != nil:
					walkSel(x.Field.Sel, seen, removed || dirsRemove(x.Field.Dirs, vars))
				case x.Inline != nil:
					rem := removed || dirsRemove(x.Inline.Dirs, vars)
					inls = append(inls, inlSite{x.Inline, rem})
					walkSel(x.Inline.Sel, seen, rem)
				case x.Spread != nil:
					rem := removed || dirsRemove(x.Spread.Dirs, vars)
					sprs = append(sprs, sprSite{x.Spread, rem})
					for _, fr := range d.Frags {
						if fr.Name == x.Spread.Name && !seen[fr.Name] {
							seen[fr.Name] = true
							walkSel(fr.Sel, seen, rem)
						}
					}
				}
			}
		}
		walkSel(op.Sel, map[string]bool{}, false)
		m.Site = "nested"
		order := r.Perm(4)
		for _, k := range order {
			switch k {
			case 0:
				if dir := pickDir("FIELD"); dir != nil {
					if fs, ok := pickField(func(fs fieldSite) bool { return true }); ok {
						fs.f.Dirs = append(cloneDirs(fs.f.Dirs), dir)
						return d, m, true
					}
				}
			case 1:
				if dir := pickDir("INLINE_FRAGMENT"); dir != nil && len(inls) > 0 {
					x := inls[r.IntN(len(inls))]
					x.in.Dirs = append(cloneDirs(x.in.Dirs), dir)
					m.UnderRemoved = x.removed
					return d, m, true
				}
			case 2:
				if dir := pickDir("FRAGMENT_SPREAD"); dir != nil && len(sprs) > 0 {
					x := sprs[r.IntN(len(sprs))]
					x.sp.Dirs = append(cloneDirs(x.sp.Dirs), dir)
					m.UnderRemoved = x.removed
					return d, m, true
				}
			case 3:
				if dir := pickDir(map[string]string{"query": "QUERY", "mutation": "MUTATION", "subscription": "SUBSCRIPTION"}[op.Kind]); dir != nil {
					op.Dirs = append(cloneDirs(op.Dirs), dir)
					m.Site = "root"
					return d, m, true
				}
			}
		}
		return nil, m, false
	case "unknown-directive":
		m.Rule = "KnownDirectives"
		fs, ok := pickField(func(fs fieldSite) bool { return true })
		if !ok {
			return nil, m, false
		}
		fs.f.Dirs = append(cloneDirs(fs.f.Dirs), &Dir{Name: "zzUnknownDirective"})
	case "misplaced-directive":
		m.Rule = "KnownDirectives"
		m.Site = "root"
		switch r.IntN(2) {
		case 0:
			op.Dirs = append(op.Dirs, &Dir{Name: "skip", Args: []*ArgVal{{"if", BoolV(false)}}})
		default:
			fs, ok := pickField(func(fs fieldSite) bool { return true })
			if !ok {
				return nil, m, false
			}
			fs.f.Dirs = append(cloneDirs(fs.f.Dirs), &Dir{Name: "deprecated"})
		}
	case "duplicate-directive":
		m.Rule = "UniqueDirectivesPerLocation"
		fs, ok := pickField(func(fs fieldSite) bool { return true })
		if !ok {
			return nil, m, false
		}
		// the duplicated directive must not change which fields are selected: include(if: true)
		// NB: normalisation evaluates and drops @include(if: true), so the duplicate is erased
		m.UnderRemoved = true
		fs.f.Dirs = append(cloneDirs(fs.f.Dirs), &Dir{Name: "include", Args: []*ArgVal{{"if", BoolV(true)}}}, &Dir{Name: "include", Args: []*ArgVal{{"if", BoolV(true)}}})
		for _, dd := range fs.f.Dirs[:len(fs.f.Dirs)-2] {
			if dd.Name == "include" {
				fs.f.Dirs = fs.f.Dirs[:len(fs.f.Dirs)-1]
				break
			}
		}
	case "directive-missing-argument":
		m.Rule = "ProvidedRequiredArguments"
		fs, ok := pickField(func(fs fieldSite) bool { return true })
		if !ok {
			return nil, m, false
		}
		fs.f.Dirs = append(cloneDirs(fs.f.Dirs), &Dir{Name: []string{"skip", "include"}[r.IntN(2)]})
	case "second-subscription-root":
		m.Rule = "SingleFieldSubscriptions"
		m.Site = "root"
		if op.Kind != "subscription" {
			return nil, m, false
		}
		td := s.Type(s.Subscription)
		for _, f := range td.Fields {
			if len(op.Sel) > 0 && op.Sel[0].Field != nil && f.Name != op.Sel[0].Field.Name {
				fsel := &FieldSel{Name: f.Name, Def: f, Parent: td.Name}
				if s.IsComposite(f.Type.NamedType()) {
					fsel.Sel = []*Sel{{Field: &FieldSel{Name: "__typename"}}}
				}
				op.Sel = append(op.Sel, &Sel{Field: fsel})
				return d, m, true
			}
		}
		return nil, m, false
	case "subscription-typename-root":
		m.Rule = "SingleFieldSubscriptions"
		m.Site = "root"
		if op.Kind != "subscription" {
			return nil, m, false
		}
		op.Sel = []*Sel{{Field: &FieldSel{Name: "__typename"}}}
		// the variables used by the removed selection become unused: drop them to keep one rule broken
		op.Vars = nil
	case "variable-default-wrong-type":
		m.Rule = "ValuesOfCorrectType"
		m.Site = "root"
		var c []*VarDef
		for _, v := range op.Vars {
			nt := v.Type.NamedType()
			if !v.Type.IsList() && (nt == "Int" || nt == "Boolean" || nt == "Float" || s.KindOf(nt) == Enum) {
				c = append(c, v)
			}
		}
		if len(c) == 0 {
			return nil, m, false
		}
		cv := c[r.IntN(len(c))]
		cv.Default = StrV("not the right kind")
		m.UnderRemoved = !varSurvives(w, cv.Name)
	default:
		return nil, m, false
	}
	m.Erased = m.UnderRemoved
	return d, m, true
}

func valUsesVar(v *Val, name string) bool {
	if v == nil {
		return false
	}
	switch v.Kind {
	case VVar:
		return v.Str == name
	case VList:
		for _, it := range v.Items {
			if valUsesVar(it, name) {
				return true
			}
		}
	case VObject:
		for _, f := range v.Fields {
			if valUsesVar(f.Val, name) {
				return true
			}
		}
	}
	return false
}

// varSurvives reports whether variable name is still used by a field argument of a selection that
// normalisation keeps (uses in @skip/@include arguments and in removed selections disappear).
func varSurvives(w *siteWalker, name string) bool {
	for _, fs := range w.fields {
		if fs.removed {
			continue
		}
		for _, a := range fs.f.Args {
			if valUsesVar(a.Val, name) {
				return true
			}
		}
	}
	return false
}

// VarUsedInsideLiteral reports whether the variable occurs inside a list / input-object literal
// of some field or directive argument (as opposed to being the whole argument value).
func VarUsedInsideLiteral(doc *Doc, name string) bool {
	found := false
	var walk func(sels []*Sel)
	checkArgs := func(args []*ArgVal) {
		for _, a := range args {
			if a.Val.Kind != VVar && valUsesVar(a.Val, name) {
				found = true
			}
		}
	}
	walk = func(sels []*Sel) {
		for _, x := range sels {
			switch {
			case x.Field != nil:
				checkArgs(x.Field.Args)
				for _, d := range x.Field.Dirs {
					checkArgs(d.Args)
				}
				walk(x.Field.Sel)
			case x.Inline != nil:
				walk(x.Inline.Sel)
			}
		}
	}
	for _, op := range doc.Ops {
		walk(op.Sel)
	}
	for _, f := range doc.Frags {
		walk(f.Sel)
	}
	return found
}
