package gen

import (
	"fmt"
	"math/rand/v2"
	"strings"
)

// Mini AST of an executable document (rendered to text; mutations edit it and re-render).

type Doc struct {
	Ops   []*Op
	Frags []*Frag
}

type Op struct {
	Kind string // query | mutation | subscription
	Name string
	Vars []*VarDef
	Dirs []*Dir
	Sel  []*Sel
}

type VarDef struct {
	Name    string
	Type    *TypeRef
	Default *Val
	Dirs    []*Dir
}

type Dir struct {
	Name string
	Args []*ArgVal
}

type ArgVal struct {
	Name string
	Val  *Val
}

type Sel struct {
	Field  *FieldSel
	Inline *InlineFrag
	Spread *Spread
}

type FieldSel struct {
	Alias  string
	Name   string
	Args   []*ArgVal
	Dirs   []*Dir
	Sel    []*Sel
	Def    *Field   // schema definition (nil for __typename or after mutation)
	Parent string   // parent type name
}

func (f *FieldSel) Key() string {
	if f.Alias != "" {
		return f.Alias
	}
	return f.Name
}

type InlineFrag struct {
	On   string // "" = no type condition
	Dirs []*Dir
	Sel  []*Sel
	Parent string
}

type Spread struct {
	Name string
	Dirs []*Dir
	Parent string
}

type Frag struct {
	Name string
	On   string
	Dirs []*Dir
	Sel  []*Sel
}

// ---- rendering

func renderDirs(sb *strings.Builder, dirs []*Dir) {
	for _, d := range dirs {
		sb.WriteString(" @" + d.Name)
		renderArgs(sb, d.Args)
	}
}

func renderArgs(sb *strings.Builder, args []*ArgVal) {
	if len(args) == 0 {
		return
	}
	sb.WriteByte('(')
	for i, a := range args {
		if i > 0 {
			sb.WriteString(", ")
		}
		sb.WriteString(a.Name + ": " + a.Val.Literal())
	}
	sb.WriteByte(')')
}

func renderSel(sb *strings.Builder, sels []*Sel, indent string) {
	sb.WriteString("{\n")
	for _, s := range sels {
		sb.WriteString(indent + "  ")
		switch {
		case s.Field != nil:
			f := s.Field
			if f.Alias != "" {
				sb.WriteString(f.Alias + ": ")
			}
			sb.WriteString(f.Name)
			renderArgs(sb, f.Args)
			renderDirs(sb, f.Dirs)
			if len(f.Sel) > 0 {
				sb.WriteByte(' ')
				renderSel(sb, f.Sel, indent+"  ")
			}
		case s.Inline != nil:
			sb.WriteString("...")
			if s.Inline.On != "" {
				sb.WriteString(" on " + s.Inline.On)
			}
			renderDirs(sb, s.Inline.Dirs)
			sb.WriteByte(' ')
			renderSel(sb, s.Inline.Sel, indent+"  ")
		case s.Spread != nil:
			sb.WriteString("..." + s.Spread.Name)
			renderDirs(sb, s.Spread.Dirs)
		}
		sb.WriteByte('\n')
	}
	sb.WriteString(indent + "}")
}

func (d *Doc) String() string {
	var sb strings.Builder
	for _, op := range d.Ops {
		anonymousShorthand := op.Kind == "query" && op.Name == "" && len(op.Vars) == 0 && len(op.Dirs) == 0
		if !anonymousShorthand {
			sb.WriteString(op.Kind)
			if op.Name != "" {
				sb.WriteString(" " + op.Name)
			}
			if len(op.Vars) > 0 {
				sb.WriteByte('(')
				for i, v := range op.Vars {
					if i > 0 {
						sb.WriteString(", ")
					}
					sb.WriteString("$" + v.Name + ": " + v.Type.String())
					if v.Default != nil {
						sb.WriteString(" = " + v.Default.Literal())
					}
					renderDirs(&sb, v.Dirs)
				}
				sb.WriteByte(')')
			}
			renderDirs(&sb, op.Dirs)
			sb.WriteByte(' ')
		}
		renderSel(&sb, op.Sel, "")
		sb.WriteString("\n")
	}
	for _, f := range d.Frags {
		sb.WriteString("fragment " + f.Name + " on " + f.On)
		renderDirs(&sb, f.Dirs)
		sb.WriteByte(' ')
		renderSel(&sb, f.Sel, "")
		sb.WriteString("\n")
	}
	return sb.String()
}

// ---- generator

type OpProfile struct {
	MaxDepth      int
	MaxFields     int  // per selection set
	Fragments     bool // named + inline fragments
	Directives    bool // @skip/@include
	Variables     bool
	Aliases       bool
	Duplicates    bool // deliberate duplicate / overlapping fields
	Typename      bool
	Defer         bool
	Kind          string // "" = query; "mutation"; "subscription"
	MultiOps      bool
	Spellings     bool
	NoSingleton   bool
	NoSingletonVars bool // variable JSON values never use single-item → list coercion
	CustomDirs    bool // schema-defined directives are applied on executable locations their definitions allow
	Echo          bool // fragment bodies re-select fields already selected at the same response level (same key, same arguments)
	MultiFrag     bool // several fragments (inline / spreads) may be emitted into one selection set
	VarBias       int  // 0 = default (1 in 3 arguments is a plain variable); n>0 = n in 10
	SkipVarInList bool // do not put variables inside list/object literals
	// FieldFilter, when set, restricts which fields may be selected (e.g. implemented by a mock).
	FieldFilter func(parent string, f *Field) bool
}

func DefaultOpProfile(r *rand.Rand) OpProfile {
	return OpProfile{MaxDepth: 2 + r.IntN(3), MaxFields: 2 + r.IntN(3), Fragments: true, Directives: r.IntN(2) == 0, Variables: true, Aliases: true, Duplicates: r.IntN(2) == 0, Typename: true}
}

// envNode: per response-path merge environment. key → signature; children keyed by response key.
type envNode struct {
	sig      map[string]string
	children map[string]*envNode
	first    map[string]*FieldSel // key → first emission (for Echo)
	order    []string
}

func newEnv() *envNode { return &envNode{sig: map[string]string{}, children: map[string]*envNode{}} }

func (e *envNode) child(key string) *envNode {
	c, ok := e.children[key]
	if !ok {
		c = newEnv()
		e.children[key] = c
	}
	return c
}

type opGen struct {
	fragDepth int
	r       *rand.Rand
	s       *Schema
	p       OpProfile
	doc     *Doc
	op      *Op
	vars    map[string]*VarDef
	varN    int
	aliasN  int
	fragN   int
	labelN  int
	// VarValues: JSON values for the variables (coercible by construction); absent key = omitted
	fragEnv map[string]*envNode
}

// GenOperation generates a valid-by-construction document with one operation (or several with
// MultiOps) and returns it with coercible variable values for the first operation.
func GenOperation(r *rand.Rand, s *Schema, p OpProfile) (*Doc, map[string]*Val) {
	g := &opGen{r: r, s: s, p: p, doc: &Doc{}}
	kind := p.Kind
	if kind == "" {
		kind = "query"
	}
	op := g.genOp(kind, "")
	if p.MultiOps {
		op.Name = "Main"
		g.doc.Ops = append(g.doc.Ops, op)
		// a second, simpler operation (its variables are independent)
		g2 := &opGen{r: r, s: s, p: OpProfile{MaxDepth: 1, MaxFields: 2, Typename: true}, doc: g.doc, fragN: 100}
		other := g2.genOp("query", "Other")
		g.doc.Ops = append(g.doc.Ops, other)
		if r.IntN(2) == 0 {
			g.doc.Ops[0], g.doc.Ops[1] = g.doc.Ops[1], g.doc.Ops[0]
		}
	} else {
		if len(op.Vars) > 0 || r.IntN(2) == 0 {
			op.Name = "Q"
		}
		g.doc.Ops = append(g.doc.Ops, op)
	}
	vals := map[string]*Val{}
	for _, v := range op.Vars {
		// omit sometimes when allowed (nullable or has default)
		if (!v.Type.NonNull || v.Default != nil) && r.IntN(4) == 0 {
			continue
		}
		if v.Default != nil && v.Type.NonNull && false {
			continue
		}
		vals[v.Name] = GenValue(r, s, v.Type, 0, ValueOpts{Const: true, JSONMode: true, NoSingleton: p.NoSingleton || p.NoSingletonVars})
		if v.Type.NonNull && vals[v.Name].Kind == VNull {
			vals[v.Name] = GenValue(r, s, v.Type.Required(), 0, ValueOpts{Const: true, NoSingleton: true})
		}
	}
	return g.doc, vals
}

func (g *opGen) genOp(kind, name string) *Op {
	op := &Op{Kind: kind, Name: name}
	g.op = op
	g.vars = map[string]*VarDef{}
	root := g.s.Query
	switch kind {
	case "mutation":
		root = g.s.Mutation
	case "subscription":
		root = g.s.Subscription
	}
	env := newEnv()
	if kind == "subscription" {
		// exactly one non-introspection root field, no fragments/directives at the root
		save := g.p
		g.p.Fragments, g.p.Typename, g.p.Duplicates, g.p.Directives = false, false, false, false
		g.p.MaxFields = 1
		op.Sel = g.selSet(root, 0, env, true)
		g.p = save
		if len(op.Sel) > 1 {
			op.Sel = op.Sel[:1]
		}
	} else {
		op.Sel = g.selSet(root, 0, env, true)
	}
	op.Dirs = append(op.Dirs, g.customDirs(map[string]string{"query": "QUERY", "mutation": "MUTATION", "subscription": "SUBSCRIPTION"}[kind])...)
	return op
}

func (g *opGen) newVar(t *TypeRef) *VarDef {
	g.varN++
	v := &VarDef{Name: fmt.Sprintf("v%d", g.varN), Type: t}
	if g.r.IntN(4) == 0 {
		v.Default = ConstValue(g.r, g.s, t, 0)
		if v.Type.NonNull && v.Default.Kind == VNull {
			v.Default = nil
		}
	}
	g.vars[v.Name] = v
	g.op.Vars = append(g.op.Vars, v)
	return v
}

// varFor returns a variable usable at a position of type t: an existing variable of exactly t or
// its non-null variant, or a new one.
func (g *opGen) varFor(t *TypeRef, _ bool) *Val {
	if !g.p.Variables {
		return nil
	}
	want := t.String()
	wantNN := t.Required().String()
	if g.r.IntN(3) == 0 {
		for _, v := range g.op.Vars {
			vs := v.Type.String()
			if vs == want || vs == wantNN {
				return VarV(v.Name)
			}
		}
	}
	vt := t
	if !t.NonNull && g.r.IntN(3) == 0 {
		vt = t.Required()
	}
	return VarV(g.newVar(vt).Name)
}

func (g *opGen) boolVar() *Val {
	for _, v := range g.op.Vars {
		if v.Type.String() == "Boolean!" && g.r.IntN(2) == 0 {
			return VarV(v.Name)
		}
	}
	g.varN++
	v := &VarDef{Name: fmt.Sprintf("b%d", g.varN), Type: Named("Boolean", true)}
	g.vars[v.Name] = v
	g.op.Vars = append(g.op.Vars, v)
	return VarV(v.Name)
}

func (g *opGen) skipInclude() []*Dir {
	if !g.p.Directives || g.r.IntN(5) != 0 {
		return nil
	}
	name := "skip"
	if g.r.IntN(2) == 0 {
		name = "include"
	}
	var val *Val
	if g.p.Variables && g.r.IntN(2) == 0 {
		val = g.boolVar()
	} else {
		val = BoolV(g.r.IntN(2) == 0)
	}
	return []*Dir{{Name: name, Args: []*ArgVal{{Name: "if", Val: val}}}}
}

// customDirs returns at most one schema-defined directive that is allowed on loc (with generated
// constant arguments), with probability 1/4.
func (g *opGen) customDirs(loc string) []*Dir {
	if !g.p.CustomDirs || len(g.s.Directives) == 0 || g.r.IntN(4) != 0 {
		return nil
	}
	var c []*DirectiveDef
	for _, d := range g.s.Directives {
		for _, l := range d.Locations {
			if l == loc {
				c = append(c, d)
				break
			}
		}
	}
	if len(c) == 0 {
		return nil
	}
	d := c[g.r.IntN(len(c))]
	if loc == "FRAGMENT_SPREAD" && g.r.IntN(4) != 0 {
		// a spread directive that is not also allowed on inline fragments trips a known defect of the
		// repository (the directive is kept when the spread is inlined): emit that shape rarely
		ok := false
		for _, l := range d.Locations {
			ok = ok || l == "INLINE_FRAGMENT"
		}
		if !ok {
			return nil
		}
	}
	dir := &Dir{Name: d.Name}
	for _, a := range d.Args {
		required := a.Type.NonNull && a.Default == nil
		if !required && g.r.IntN(2) == 0 {
			continue
		}
		dir.Args = append(dir.Args, &ArgVal{Name: a.Name, Val: GenValue(g.r, g.s, a.Type, 0, ValueOpts{Const: true, NoSingleton: true})})
	}
	return []*Dir{dir}
}

func (g *opGen) genArgs(f *Field) []*ArgVal {
	var out []*ArgVal
	for _, a := range f.Args {
		required := a.Type.NonNull && a.Default == nil
		if !required && g.r.IntN(2) == 0 {
			continue
		}
		var v *Val
		useVar := g.r.IntN(3) == 0
		if g.p.VarBias > 0 {
			useVar = g.r.IntN(10) < g.p.VarBias
		}
		if g.p.Variables && useVar {
			v = g.varFor(a.Type, a.Default != nil)
		}
		if v == nil {
			o := ValueOpts{Spellings: g.p.Spellings, NoSingleton: g.p.NoSingleton}
			if g.p.Variables && !g.p.SkipVarInList {
				o.Var = g.varFor
			} else {
				o.Const = true
			}
			v = GenValue(g.r, g.s, a.Type, 0, o)
		}
		out = append(out, &ArgVal{Name: a.Name, Val: v})
	}
	if g.r.IntN(3) == 0 {
		g.r.Shuffle(len(out), func(i, j int) { out[i], out[j] = out[j], out[i] })
	}
	return out
}

func argsSig(args []*ArgVal) string {
	parts := make([]string, len(args))
	for i, a := range args {
		parts[i] = a.Name + ":" + a.Val.Literal()
	}
	// order-insensitive
	for i := 0; i < len(parts); i++ {
		for j := i + 1; j < len(parts); j++ {
			if parts[j] < parts[i] {
				parts[i], parts[j] = parts[j], parts[i]
			}
		}
	}
	return strings.Join(parts, ",")
}

func (g *opGen) selectable(parent string, td *TypeDef) []*Field {
	var out []*Field
	for _, f := range td.Fields {
		if g.p.FieldFilter != nil && !g.p.FieldFilter(parent, f) {
			continue
		}
		out = append(out, f)
	}
	return out
}

// selSet generates a non-empty selection set on parent type T into env.
func (g *opGen) selSet(parent string, depth int, env *envNode, isRoot bool) []*Sel {
	td := g.s.Type(parent)
	var out []*Sel
	var emitted []*FieldSel
	addField := func(f *Field) bool {
		isComposite := g.s.IsComposite(f.Type.NamedType())
		if isComposite && depth >= g.p.MaxDepth {
			return false
		}
		fs := &FieldSel{Name: f.Name, Def: f, Parent: parent}
		fs.Args = g.genArgs(f)
		key := f.Name
		if g.p.Aliases && g.r.IntN(5) == 0 {
			g.aliasN++
			key = fmt.Sprintf("a%d", g.aliasN)
			fs.Alias = key
		}
		sig := f.Name + "(" + argsSig(fs.Args) + "):" + f.Type.String()
		if old, ok := env.sig[key]; ok && old != sig {
			// response key taken with a different signature: use a fresh alias
			g.aliasN++
			key = fmt.Sprintf("a%d", g.aliasN)
			fs.Alias = key
		}
		env.sig[key] = sig
		if env.first == nil {
			env.first = map[string]*FieldSel{}
		}
		if _, ok := env.first[key]; !ok {
			env.first[key] = fs
			env.order = append(env.order, key)
		}
		fs.Dirs = append(g.skipInclude(), g.customDirs("FIELD")...)
		if isComposite {
			fs.Sel = g.selSet(f.Type.NamedType(), depth+1, env.child(key), false)
		}
		out = append(out, &Sel{Field: fs})
		emitted = append(emitted, fs)
		return true
	}
	if td.Kind != Union {
		fields := g.selectable(parent, td)
		n := 1 + g.r.IntN(g.p.MaxFields)
		for i := 0; i < n && len(fields) > 0; i++ {
			addField(fields[g.r.IntN(len(fields))])
		}
	}
	// echo: inside a fragment body, select again what is already selected at this response level
	// (by the enclosing selection or a sibling fragment) — same key, same arguments
	if g.p.Echo && g.fragDepth > 0 && td.Kind != Union {
		for _, key := range append([]string(nil), env.order...) {
			f0 := env.first[key]
			fd := td.Field(f0.Name)
			if fd == nil || g.r.IntN(3) != 0 || (g.p.FieldFilter != nil && !g.p.FieldFilter(parent, fd)) {
				continue
			}
			if f0.Name+"("+argsSig(f0.Args)+"):"+fd.Type.String() != env.sig[key] || f0.Def == nil || !sameArgDefs(f0.Def, fd) {
				continue
			}
			isComposite := g.s.IsComposite(fd.Type.NamedType())
			if isComposite && depth >= g.p.MaxDepth {
				continue
			}
			dup := &FieldSel{Alias: f0.Alias, Name: f0.Name, Args: f0.Args, Def: fd, Parent: parent}
			if isComposite {
				dup.Sel = g.selSet(fd.Type.NamedType(), depth+1, env.child(key), false)
			}
			out = append(out, &Sel{Field: dup})
		}
	}
	if g.p.Typename && !(isRoot && g.op.Kind == "subscription") && (td.Kind == Union || td.Kind == Interface || g.r.IntN(4) == 0) && !(isRoot && g.op.Kind == "mutation") {
		key := "__typename"
		if old, ok := env.sig[key]; !ok || old == "__typename" {
			env.sig[key] = "__typename"
			out = append(out, &Sel{Field: &FieldSel{Name: "__typename", Parent: parent}})
		}
	}
	// deliberate duplicate of an emitted field (identical signature; sub-selection generated into the same env child)
	if g.p.Duplicates && len(emitted) > 0 && g.r.IntN(3) == 0 {
		src := emitted[g.r.IntN(len(emitted))]
		dup := &FieldSel{Alias: src.Alias, Name: src.Name, Args: src.Args, Def: src.Def, Parent: parent}
		if src.Def != nil && g.s.IsComposite(src.Def.Type.NamedType()) {
			dup.Sel = g.selSet(src.Def.Type.NamedType(), depth+1, env.child(src.Key()), false)
		}
		out = append(out, &Sel{Field: dup})
	}
	// fragments
	for nfr := 0; g.p.Fragments && !(isRoot && g.op.Kind != "query") && depth <= g.p.MaxDepth && g.r.IntN(3) == 0 && (nfr == 0 || (g.p.MultiFrag && nfr < 3)); nfr++ {
		conds := g.possibleConditions(parent)
		cond := conds[g.r.IntN(len(conds))]
		if g.r.IntN(2) == 0 {
			in := &InlineFrag{On: cond, Parent: parent}
			if cond == parent && g.r.IntN(2) == 0 {
				in.On = ""
			}
			in.Dirs = append(g.skipInclude(), g.customDirs("INLINE_FRAGMENT")...)
			if g.p.Defer && g.op.Kind == "query" && g.r.IntN(2) == 0 {
				in.Dirs = append(in.Dirs, g.deferDir())
			}
			g.fragDepth++
			in.Sel = g.selSet(cond, depth, env, false)
			g.fragDepth--
			out = append(out, &Sel{Inline: in})
		} else {
			g.fragN++
			fr := &Frag{Name: fmt.Sprintf("F%d", g.fragN), On: cond, Dirs: g.customDirs("FRAGMENT_DEFINITION")}
			// the body is generated into the spreading site's env; the fragment is spread only here
			g.fragDepth++
			fr.Sel = g.selSet(cond, depth, env, false)
			g.fragDepth--
			g.doc.Frags = append(g.doc.Frags, fr)
			sp := &Spread{Name: fr.Name, Parent: parent}
			sp.Dirs = append(g.skipInclude(), g.customDirs("FRAGMENT_SPREAD")...)
			if g.p.Defer && g.op.Kind == "query" && g.r.IntN(2) == 0 {
				sp.Dirs = append(sp.Dirs, g.deferDir())
			}
			out = append(out, &Sel{Spread: sp})
		}
	}
	if len(out) == 0 {
		// unions / filtered types: fall back to __typename
		env.sig["__typename"] = "__typename"
		out = append(out, &Sel{Field: &FieldSel{Name: "__typename", Parent: parent}})
	}
	if g.r.IntN(4) == 0 {
		g.r.Shuffle(len(out), func(i, j int) { out[i], out[j] = out[j], out[i] })
	}
	return out
}

func (g *opGen) deferDir() *Dir {
	d := &Dir{Name: "defer"}
	if g.r.IntN(2) == 0 {
		g.labelN++
		d.Args = append(d.Args, &ArgVal{Name: "label", Val: StrV(fmt.Sprintf("L%d", g.labelN))})
	}
	if g.r.IntN(4) == 0 {
		d.Args = append(d.Args, &ArgVal{Name: "if", Val: BoolV(g.r.IntN(3) != 0)})
	}
	return d
}

// possibleConditions lists composite types C with possible(C) ∩ possible(T) ≠ ∅.
func (g *opGen) possibleConditions(parent string) []string {
	var out []string
	for _, t := range g.s.Types {
		if t.Kind != Object && t.Kind != Interface && t.Kind != Union {
			continue
		}
		if t.Name == g.s.Query || t.Name == g.s.Mutation || t.Name == g.s.Subscription {
			if t.Name != parent {
				continue
			}
		}
		if t.Name == parent || g.s.Overlap(t.Name, parent) {
			// a union condition on a parent that is not that union is a rare shape: emit it rarely
			if t.Kind == Union && t.Name != parent && g.r.IntN(6) != 0 {
				continue
			}
			out = append(out, t.Name)
		}
	}
	if len(out) == 0 {
		out = []string{parent}
	}
	return out
}

// sameArgDefs: both fields declare the same arguments (names, types, defaults present alike).
func sameArgDefs(a, b *Field) bool {
	if len(a.Args) != len(b.Args) {
		return false
	}
	for _, x := range a.Args {
		ok := false
		for _, y := range b.Args {
			if x.Name == y.Name && x.Type.String() == y.Type.String() && (x.Default == nil) == (y.Default == nil) {
				ok = true
			}
		}
		if !ok {
			return false
		}
	}
	return true
}
