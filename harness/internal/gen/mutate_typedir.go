package gen

import (
	"math/rand/v2"
	"sort"
)

// OperatorUndefinedDirectiveNamedLikeType is NOT part of MutationOperators (the rotation over that
// list fixes the index → case mapping of its users); callers opt in by calling
// MutateUndefinedDirectiveNamedLikeType with a PRNG stream of their own.
const OperatorUndefinedDirectiveNamedLikeType = "undefined-directive-named-like-a-type"

// TypeNamesNotDirectives: the names of the schema's types (object, interface, union, enum, input,
// scalar, plus the built-in scalars) that are not also names of a directive (schema-defined or
// built-in), sorted.
func TypeNamesNotDirectives(s *Schema) []string {
	dirs := map[string]bool{"skip": true, "include": true, "deprecated": true, "specifiedBy": true, "oneOf": true, "defer": true, "stream": true}
	for _, d := range s.Directives {
		dirs[d.Name] = true
	}
	seen := map[string]bool{}
	var out []string
	add := func(n string) {
		if n != "" && !dirs[n] && !seen[n] {
			seen[n] = true
			out = append(out, n)
		}
	}
	for _, t := range s.Types {
		add(t.Name)
	}
	for _, n := range []string{"String", "Int", "Float", "Boolean", "ID"} {
		add(n)
	}
	sort.Strings(out)
	return out
}

// MutateUndefinedDirectiveNamedLikeType attaches `@<TypeName>` (no arguments; TypeName names a type
// of the schema but no directive) at a PRNG-drawn directive location of the reachable part of the
// executed operation: field, inline fragment, fragment spread, fragment definition or the
// operation itself. The document then violates KnownDirectives ("Unknown directive"). Mutation.Site
// names the location kind; UnderRemoved says that every path to the site runs through a selection
// removed by @skip/@include for the given variable values.
func MutateUndefinedDirectiveNamedLikeType(r *rand.Rand, s *Schema, doc *Doc, opName string, vars map[string]any) (*Doc, Mutation, bool) {
	m := Mutation{Operator: OperatorUndefinedDirectiveNamedLikeType, Rule: "KnownDirectives"}
	names := TypeNamesNotDirectives(s)
	if len(names) == 0 {
		return nil, m, false
	}
	d := doc.Clone()
	var op *Op
	for _, o := range d.Ops {
		if o.Name == opName || opName == "" {
			op = o
			break
		}
	}
	if op == nil {
		return nil, m, false
	}
	type site struct {
		dirs *[]*Dir
		live bool
	}
	var fields, inls, sprs, frags []*site
	index := map[*[]*Dir]*site{}
	reg := func(list *[]*site, dirs *[]*Dir, live bool) {
		if st := index[dirs]; st != nil {
			st.live = st.live || live
			return
		}
		st := &site{dirs, live}
		index[dirs] = st
		*list = append(*list, st)
	}
	var walk func(sels []*Sel, live bool, visiting map[string]bool)
	walk = func(sels []*Sel, live bool, visiting map[string]bool) {
		for _, x := range sels {
			switch {
			case x.Field != nil:
				l := live && !dirsRemove(x.Field.Dirs, vars)
				reg(&fields, &x.Field.Dirs, l)
				walk(x.Field.Sel, l, visiting)
			case x.Inline != nil:
				l := live && !dirsRemove(x.Inline.Dirs, vars)
				reg(&inls, &x.Inline.Dirs, l)
				walk(x.Inline.Sel, l, visiting)
			case x.Spread != nil:
				l := live && !dirsRemove(x.Spread.Dirs, vars)
				reg(&sprs, &x.Spread.Dirs, l)
				for _, fr := range d.Frags {
					if fr.Name == x.Spread.Name && !visiting[fr.Name] {
						visiting[fr.Name] = true
						reg(&frags, &fr.Dirs, l)
						walk(fr.Sel, l, visiting)
						delete(visiting, fr.Name)
					}
				}
			}
		}
	}
	walk(op.Sel, true, map[string]bool{})
	name := names[r.IntN(len(names))]
	kinds := []string{"field", "inline-fragment", "fragment-spread", "fragment-definition", "operation"}
	for _, k := range r.Perm(len(kinds)) {
		var list []*site
		switch kinds[k] {
		case "field":
			list = fields
		case "inline-fragment":
			list = inls
		case "fragment-spread":
			list = sprs
		case "fragment-definition":
			list = frags
		case "operation":
			list = []*site{{&op.Dirs, true}}
		}
		if len(list) == 0 {
			continue
		}
		// prefer a site that survives normalisation; draw in any case so that the stream does not
		// depend on which sites are live
		var live []*site
		for _, st := range list {
			if st.live {
				live = append(live, st)
			}
		}
		n := r.IntN(1 << 30)
		st := list[n%len(list)]
		if len(live) > 0 {
			st = live[n%len(live)]
		}
		*st.dirs = append(cloneDirs(*st.dirs), &Dir{Name: name})
		m.Site, m.UnderRemoved = kinds[k], !st.live
		return d, m, true
	}
	return nil, m, false
}
