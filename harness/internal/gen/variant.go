package gen

import (
	"fmt"
	"math/rand/v2"
)

// ---- deep copy

func cloneVal(v *Val) *Val {
	if v == nil {
		return nil
	}
	c := *v
	if v.Items != nil {
		c.Items = make([]*Val, len(v.Items))
		for i, it := range v.Items {
			c.Items[i] = cloneVal(it)
		}
	}
	if v.Fields != nil {
		c.Fields = make([]ObjField, len(v.Fields))
		for i, f := range v.Fields {
			c.Fields[i] = ObjField{f.Name, cloneVal(f.Val)}
		}
	}
	return &c
}

func cloneArgs(a []*ArgVal) []*ArgVal {
	if a == nil {
		return nil
	}
	out := make([]*ArgVal, len(a))
	for i, x := range a {
		out[i] = &ArgVal{Name: x.Name, Val: cloneVal(x.Val)}
	}
	return out
}

func cloneDirs(d []*Dir) []*Dir {
	if d == nil {
		return nil
	}
	out := make([]*Dir, len(d))
	for i, x := range d {
		out[i] = &Dir{Name: x.Name, Args: cloneArgs(x.Args)}
	}
	return out
}

func CloneSels(s []*Sel) []*Sel {
	if s == nil {
		return nil
	}
	out := make([]*Sel, len(s))
	for i, x := range s {
		n := &Sel{}
		switch {
		case x.Field != nil:
			f := *x.Field
			f.Args = cloneArgs(f.Args)
			f.Dirs = cloneDirs(f.Dirs)
			f.Sel = CloneSels(f.Sel)
			n.Field = &f
		case x.Inline != nil:
			f := *x.Inline
			f.Dirs = cloneDirs(f.Dirs)
			f.Sel = CloneSels(f.Sel)
			n.Inline = &f
		case x.Spread != nil:
			f := *x.Spread
			f.Dirs = cloneDirs(f.Dirs)
			n.Spread = &f
		}
		out[i] = n
	}
	return out
}

func (d *Doc) Clone() *Doc {
	out := &Doc{}
	for _, op := range d.Ops {
		c := &Op{Kind: op.Kind, Name: op.Name, Dirs: cloneDirs(op.Dirs), Sel: CloneSels(op.Sel)}
		for _, v := range op.Vars {
			c.Vars = append(c.Vars, &VarDef{Name: v.Name, Type: v.Type, Default: cloneVal(v.Default), Dirs: cloneDirs(v.Dirs)})
		}
		out.Ops = append(out.Ops, c)
	}
	for _, f := range d.Frags {
		out.Frags = append(out.Frags, &Frag{Name: f.Name, On: f.On, Dirs: cloneDirs(f.Dirs), Sel: CloneSels(f.Sel)})
	}
	return out
}

// selSite is a selection set with the type it is selected on.
type selSite struct {
	sels   *[]*Sel
	parent string
}

func (d *Doc) sites(s *Schema) []selSite {
	var out []selSite
	var walk func(sels *[]*Sel, parent string)
	walk = func(sels *[]*Sel, parent string) {
		out = append(out, selSite{sels, parent})
		for _, x := range *sels {
			switch {
			case x.Field != nil:
				if len(x.Field.Sel) > 0 && x.Field.Def != nil {
					walk(&x.Field.Sel, x.Field.Def.Type.NamedType())
				}
			case x.Inline != nil:
				p := x.Inline.On
				if p == "" {
					p = parent
				}
				walk(&x.Inline.Sel, p)
			}
		}
	}
	for _, op := range d.Ops {
		root := s.Query
		switch op.Kind {
		case "mutation":
			root = s.Mutation
		case "subscription":
			root = s.Subscription
		}
		walk(&op.Sel, root)
	}
	for _, f := range d.Frags {
		walk(&f.Sel, f.On)
	}
	return out
}

func (d *Doc) allFields(s *Schema) []*FieldSel {
	var out []*FieldSel
	for _, site := range d.sites(s) {
		for _, x := range *site.sels {
			if x.Field != nil {
				out = append(out, x.Field)
			}
		}
	}
	return out
}

func renameVarsInVal(v *Val, m map[string]string) {
	if v == nil {
		return
	}
	switch v.Kind {
	case VVar:
		if n, ok := m[v.Str]; ok {
			v.Str = n
		}
	case VList:
		for _, it := range v.Items {
			renameVarsInVal(it, m)
		}
	case VObject:
		for _, f := range v.Fields {
			renameVarsInVal(f.Val, m)
		}
	}
}

func renameVarsInDirs(ds []*Dir, m map[string]string) {
	for _, d := range ds {
		for _, a := range d.Args {
			renameVarsInVal(a.Val, m)
		}
	}
}

func renameVarsInSels(sels []*Sel, m map[string]string) {
	for _, x := range sels {
		switch {
		case x.Field != nil:
			for _, a := range x.Field.Args {
				renameVarsInVal(a.Val, m)
			}
			renameVarsInDirs(x.Field.Dirs, m)
			renameVarsInSels(x.Field.Sel, m)
		case x.Inline != nil:
			renameVarsInDirs(x.Inline.Dirs, m)
			renameVarsInSels(x.Inline.Sel, m)
		case x.Spread != nil:
			renameVarsInDirs(x.Spread.Dirs, m)
		}
	}
}

func hasDefer(ds []*Dir) bool {
	for _, d := range ds {
		if d.Name == "defer" {
			return true
		}
	}
	return false
}

// Variant applies one meaning-preserving transformation that the normaliser documents as
// canonicalised. ok=false when the transformation has no eligible site in this document.
func Variant(r *rand.Rand, s *Schema, doc *Doc, vals map[string]*Val, kind string) (*Doc, map[string]*Val, bool) {
	d := doc.Clone()
	nv := map[string]*Val{}
	for k, v := range vals {
		nv[k] = v
	}
	switch kind {
	case "wrap":
		sites := d.sites(s)
		site := sites[r.IntN(len(sites))]
		td := s.Type(site.parent)
		if td == nil {
			return nil, nil, false
		}
		in := &InlineFrag{On: site.parent, Parent: site.parent, Sel: *site.sels}
		if r.IntN(2) == 0 {
			in.On = ""
		}
		*site.sels = []*Sel{{Inline: in}}
		return d, nv, true
	case "named2inline":
		// replace one spread by an inline fragment carrying the fragment's body and directives
		for _, site := range d.sites(s) {
			for i, x := range *site.sels {
				if x.Spread == nil {
					continue
				}
				var fr *Frag
				fi := -1
				for k, f := range d.Frags {
					if f.Name == x.Spread.Name {
						fr, fi = f, k
					}
				}
				if fr == nil || hasDefer(x.Spread.Dirs) || hasCustom(x.Spread.Dirs) || hasCustom(fr.Dirs) {
					continue
				}
				(*site.sels)[i] = &Sel{Inline: &InlineFrag{On: fr.On, Dirs: x.Spread.Dirs, Sel: fr.Sel, Parent: site.parent}}
				d.Frags = append(d.Frags[:fi], d.Frags[fi+1:]...)
				return d, nv, true
			}
		}
		// or the other direction: an inline fragment with a type condition becomes a named fragment
		for _, site := range d.sites(s) {
			for i, x := range *site.sels {
				if x.Inline == nil || x.Inline.On == "" || hasDefer(x.Inline.Dirs) || hasCustom(x.Inline.Dirs) {
					continue
				}
				fr := &Frag{Name: fmt.Sprintf("VF%d", r.IntN(1000)), On: x.Inline.On, Sel: x.Inline.Sel}
				d.Frags = append(d.Frags, fr)
				(*site.sels)[i] = &Sel{Spread: &Spread{Name: fr.Name, Dirs: x.Inline.Dirs, Parent: site.parent}}
				return d, nv, true
			}
		}
		return nil, nil, false
	case "dup":
		sites := d.sites(s)
		r.Shuffle(len(sites), func(i, j int) { sites[i], sites[j] = sites[j], sites[i] })
		for _, site := range sites {
			var fields []*Sel
			for _, x := range *site.sels {
				if x.Field != nil && len(x.Field.Dirs) == 0 {
					fields = append(fields, x)
				}
			}
			if len(fields) == 0 {
				continue
			}
			src := fields[r.IntN(len(fields))]
			cp := CloneSels([]*Sel{src})[0]
			*site.sels = append(*site.sels, cp)
			return d, nv, true
		}
		return nil, nil, false
	case "rename":
		if len(d.Ops[0].Vars) == 0 {
			return nil, nil, false
		}
		m := map[string]string{}
		for i, v := range d.Ops[0].Vars {
			m[v.Name] = fmt.Sprintf("renamed_%c%d", 'z'-byte(i%26), i)
		}
		for _, v := range d.Ops[0].Vars {
			v.Name = m[v.Name]
		}
		renameVarsInDirs(d.Ops[0].Dirs, m)
		renameVarsInSels(d.Ops[0].Sel, m)
		for _, f := range d.Frags {
			renameVarsInSels(f.Sel, m)
		}
		nv = map[string]*Val{}
		for k, v := range vals {
			nv[m[k]] = v
		}
		return d, nv, true
	case "lit2var":
		fields := d.allFields(s)
		r.Shuffle(len(fields), func(i, j int) { fields[i], fields[j] = fields[j], fields[i] })
		for _, f := range fields {
			if f.Def == nil {
				continue
			}
			for _, a := range f.Args {
				ad := f.Def.Arg(a.Name)
				if ad == nil || a.Val.HasVar() || a.Val.Kind == VVar {
					continue
				}
				// extraction shares one variable between equal literals (documented), so the literal is only
				// interchangeable with a variable when no other argument carries the same literal
				varJSON := map[string]any{}
				for _, vd := range d.Ops[0].Vars {
					if vd.Default != nil {
						varJSON[vd.Name], _ = vd.Default.JSON(nil)
					}
				}
				for k, v := range vals {
					varJSON[k], _ = v.JSON(nil)
				}
				canonOf := func(v *Val) string {
					x, _ := v.JSON(varJSON)
					return CanonJSON(x)
				}
				lit := canonOf(a.Val)
				sigF := f.Key() + "|" + f.Name + "|" + argsSig(f.Args)
				clash := false
				for _, other := range fields {
					sameField := other == f
					if !sameField && other.Key()+"|"+other.Name+"|"+argsSig(other.Args) == sigF {
						// a same-looking field of ANOTHER parent type whose argument has a different type cannot
						// share the variable, and cannot keep the literal next to it either: leave this literal alone
						if other.Def == nil || other.Def.Arg(a.Name) == nil || other.Def.Arg(a.Name).Type.String() != ad.Type.String() {
							clash = true
						}
						continue
					}
					for _, oa := range other.Args {
						if oa == a || oa.Val.Kind == VVar {
							continue
						}
						if canonOf(oa.Val) == lit {
							clash = true
						}
					}
				}
				if clash {
					continue
				}
				// the literal must itself be a legal variable value for the argument's type
				// (a null literal for a nullable position is; singleton-for-list is coerced alike)
				name := fmt.Sprintf("lit%d", r.IntN(1000))
				d.Ops[0].Vars = append(d.Ops[0].Vars, &VarDef{Name: name, Type: ad.Type})
				nv[name] = a.Val
				// deliberate duplicates of this field (same response key, name and arguments) must change
				// alike, otherwise the two spellings conflict before normalisation
				sig := f.Key() + "|" + f.Name + "|" + argsSig(f.Args)
				for _, other := range fields {
					if other != f && other.Key()+"|"+other.Name+"|"+argsSig(other.Args) == sig {
						for _, oa := range other.Args {
							if oa.Name == a.Name {
								oa.Val = VarV(name)
							}
						}
					}
				}
				a.Val = VarV(name)
				return d, nv, true
			}
		}
		return nil, nil, false
	}
	return nil, nil, false
}

// AbstractFragmentOnObjectParent reports whether the document applies a fragment whose type
// condition is an interface or union inside a selection on a concrete object type.
func AbstractFragmentOnObjectParent(s *Schema, doc *Doc) bool {
	found := false
	isAbstract := func(n string) bool { k := s.KindOf(n); return k == Interface || k == Union }
	fragOn := map[string]string{}
	for _, f := range doc.Frags {
		fragOn[f.Name] = f.On
	}
	var walk func(sels []*Sel, parent string)
	walk = func(sels []*Sel, parent string) {
		for _, x := range sels {
			switch {
			case x.Field != nil:
				if x.Field.Def != nil && len(x.Field.Sel) > 0 {
					walk(x.Field.Sel, x.Field.Def.Type.NamedType())
				}
			case x.Inline != nil:
				p := parent
				if x.Inline.On != "" {
					if isAbstract(x.Inline.On) && s.KindOf(parent) == Object {
						found = true
					}
					p = x.Inline.On
				}
				walk(x.Inline.Sel, p)
			case x.Spread != nil:
				if on := fragOn[x.Spread.Name]; on != "" && isAbstract(on) && s.KindOf(parent) == Object {
					found = true
				}
			}
		}
	}
	for _, op := range doc.Ops {
		root := s.Query
		if op.Kind == "mutation" {
			root = s.Mutation
		}
		walk(op.Sel, root)
	}
	for _, f := range doc.Frags {
		walk(f.Sel, f.On)
	}
	return found
}

// UnionFragmentInNonUnionParent reports whether the document applies a fragment whose type
// condition is a union inside a selection whose parent type is not that union (an object type that
// is a member, or an interface sharing a member).
func UnionFragmentInNonUnionParent(s *Schema, doc *Doc) bool {
	found := false
	fragOn := map[string]string{}
	for _, f := range doc.Frags {
		fragOn[f.Name] = f.On
	}
	check := func(on, parent string) {
		if on != "" && on != parent && s.KindOf(on) == Union {
			found = true
		}
	}
	var walk func(sels []*Sel, parent string)
	walk = func(sels []*Sel, parent string) {
		for _, x := range sels {
			switch {
			case x.Field != nil:
				if x.Field.Def != nil && len(x.Field.Sel) > 0 {
					walk(x.Field.Sel, x.Field.Def.Type.NamedType())
				}
			case x.Inline != nil:
				p := parent
				if x.Inline.On != "" {
					check(x.Inline.On, parent)
					p = x.Inline.On
				}
				walk(x.Inline.Sel, p)
			case x.Spread != nil:
				check(fragOn[x.Spread.Name], parent)
			}
		}
	}
	for _, op := range doc.Ops {
		root := s.Query
		if op.Kind == "mutation" {
			root = s.Mutation
		}
		walk(op.Sel, root)
	}
	for _, f := range doc.Frags {
		walk(f.Sel, f.On)
	}
	return found
}

// hasCustom: a directive other than @skip/@include/@defer (a schema-defined one, whose allowed
// locations a named<->inline rewrite might not respect).
func hasCustom(dirs []*Dir) bool {
	for _, d := range dirs {
		if d.Name != "skip" && d.Name != "include" && d.Name != "defer" {
			return true
		}
	}
	return false
}

// SpreadDirectiveNotForInline: some fragment spread of the document carries a schema-defined directive
// whose definition does not list INLINE_FRAGMENT (it is valid where it is written; normalisation
// turns the spread into an inline fragment and keeps the directive).
func SpreadDirectiveNotForInline(s *Schema, doc *Doc) bool {
	allowed := map[string]bool{"skip": true, "include": true, "defer": true}
	for _, d := range s.Directives {
		for _, l := range d.Locations {
			if l == "INLINE_FRAGMENT" {
				allowed[d.Name] = true
			}
		}
	}
	found := false
	var walk func(sels []*Sel)
	walk = func(sels []*Sel) {
		for _, x := range sels {
			switch {
			case x.Field != nil:
				walk(x.Field.Sel)
			case x.Inline != nil:
				walk(x.Inline.Sel)
			case x.Spread != nil:
				for _, d := range x.Spread.Dirs {
					if !allowed[d.Name] {
						found = true
					}
				}
			}
		}
	}
	for _, o := range doc.Ops {
		walk(o.Sel)
	}
	for _, f := range doc.Frags {
		walk(f.Sel)
	}
	return found
}
