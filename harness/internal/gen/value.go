package gen

import (
	"encoding/json"
	"fmt"
	"math/rand/v2"
	"sort"
	"strconv"
	"strings"
)

type ValKind int

const (
	VNull ValKind = iota
	VInt
	VFloat
	VString
	VBool
	VEnum
	VList
	VObject
	VVar
)

// Val is a GraphQL input value together with its chosen spelling. The denoted value (JSON()) is
// known by construction; Spelling, when set, is the literal text chosen for a leaf.
type Val struct {
	Kind     ValKind
	Int      int64
	Float    float64
	Str      string // VString: the denoted string; VEnum: enum name; VVar: variable name
	Bool     bool
	Items    []*Val
	Fields   []ObjField
	Spelling string // literal spelling of a leaf (numbers, strings); "" = canonical
	Raw      json.RawMessage // VFloat/VInt with big spelling: JSON number text
}

type ObjField struct {
	Name string
	Val  *Val
}

func Null() *Val            { return &Val{Kind: VNull} }
func IntV(i int64) *Val     { return &Val{Kind: VInt, Int: i} }
func FloatV(f float64) *Val { return &Val{Kind: VFloat, Float: f} }
func StrV(s string) *Val    { return &Val{Kind: VString, Str: s} }
func BoolV(b bool) *Val     { return &Val{Kind: VBool, Bool: b} }
func EnumV(s string) *Val   { return &Val{Kind: VEnum, Str: s} }
func VarV(s string) *Val    { return &Val{Kind: VVar, Str: s} }
func ListV(items ...*Val) *Val {
	return &Val{Kind: VList, Items: items}
}
func ObjV(fields ...ObjField) *Val { return &Val{Kind: VObject, Fields: fields} }

func (v *Val) Get(name string) *Val {
	for _, f := range v.Fields {
		if f.Name == name {
			return f.Val
		}
	}
	return nil
}

// Literal renders the value as GraphQL literal text.
func (v *Val) Literal() string {
	switch v.Kind {
	case VNull:
		return "null"
	case VInt:
		if v.Spelling != "" {
			return v.Spelling
		}
		return strconv.FormatInt(v.Int, 10)
	case VFloat:
		if v.Spelling != "" {
			return v.Spelling
		}
		s := strconv.FormatFloat(v.Float, 'f', -1, 64)
		if !strings.ContainsAny(s, ".eE") {
			s += ".0"
		}
		return s
	case VString:
		if v.Spelling != "" {
			return v.Spelling
		}
		return QuoteGraphQL(v.Str)
	case VBool:
		if v.Bool {
			return "true"
		}
		return "false"
	case VEnum:
		return v.Str
	case VVar:
		return "$" + v.Str
	case VList:
		parts := make([]string, len(v.Items))
		for i, it := range v.Items {
			parts[i] = it.Literal()
		}
		return "[" + strings.Join(parts, ", ") + "]"
	case VObject:
		parts := make([]string, len(v.Fields))
		for i, f := range v.Fields {
			parts[i] = f.Name + ": " + f.Val.Literal()
		}
		return "{" + strings.Join(parts, ", ") + "}"
	}
	return "null"
}

// QuoteGraphQL gives the canonical (JSON-compatible) quoted spelling of a string.
func QuoteGraphQL(s string) string {
	var sb strings.Builder
	sb.WriteByte('"')
	for _, r := range s {
		switch r {
		case '"':
			sb.WriteString(`\"`)
		case '\\':
			sb.WriteString(`\\`)
		case '\n':
			sb.WriteString(`\n`)
		case '\r':
			sb.WriteString(`\r`)
		case '\t':
			sb.WriteString(`\t`)
		case '\b':
			sb.WriteString(`\b`)
		case '\f':
			sb.WriteString(`\f`)
		default:
			if r < 0x20 {
				fmt.Fprintf(&sb, `\u%04x`, r)
			} else {
				sb.WriteRune(r)
			}
		}
	}
	sb.WriteByte('"')
	return sb.String()
}

// JSON returns the denoted value as a Go JSON value (enum → string). Variables are resolved
// through vars (nil entry → the key is absent → returned ok=false for object fields / items keep null).
func (v *Val) JSON(vars map[string]any) (any, bool) {
	switch v.Kind {
	case VNull:
		return nil, true
	case VInt:
		if v.Raw != nil {
			return json.Number(string(v.Raw)), true
		}
		return json.Number(strconv.FormatInt(v.Int, 10)), true
	case VFloat:
		if v.Raw != nil {
			return json.Number(string(v.Raw)), true
		}
		return json.Number(strconv.FormatFloat(v.Float, 'g', -1, 64)), true
	case VString, VEnum:
		return v.Str, true
	case VBool:
		return v.Bool, true
	case VVar:
		x, ok := vars[v.Str]
		return x, ok
	case VList:
		out := make([]any, 0, len(v.Items))
		for _, it := range v.Items {
			x, ok := it.JSON(vars)
			if !ok {
				x = nil
			}
			out = append(out, x)
		}
		return out, true
	case VObject:
		out := map[string]any{}
		for _, f := range v.Fields {
			x, ok := f.Val.JSON(vars)
			if ok {
				out[f.Name] = x
			}
		}
		return out, true
	}
	return nil, true
}

// HasVar reports whether the value contains a variable.
func (v *Val) HasVar() bool {
	switch v.Kind {
	case VVar:
		return true
	case VList:
		for _, it := range v.Items {
			if it.HasVar() {
				return true
			}
		}
	case VObject:
		for _, f := range v.Fields {
			if f.Val.HasVar() {
				return true
			}
		}
	}
	return false
}

// VarUse is requested by the value generator when it wants to place a variable at a position.
type VarUse func(t *TypeRef, hasDefault bool) *Val

// ValueOpts controls generation.
type ValueOpts struct {
	Const       bool   // no variables
	Var         VarUse // nil = no variables
	Spellings   bool   // varied literal spellings (C15)
	NoSingleton bool   // do not use single-item → list coercion
	JSONMode    bool   // the value will be sent as a JSON variable (custom scalars may be arbitrary JSON; strings arbitrary)
	Shallow     bool   // omit optional fields of input-object type (used for input-field defaults: keeps defaults acyclic)
}

var stringValuePool = []string{"", "a", "hello world", `q"uote`, `back\slash`, "line\nbreak", "tab\there", "é中", "😀 emoji", "{}[]():,", "#hash", "long " + strings.Repeat("x", 40)}

// GenValue generates a value coercible to t (by construction).
func GenValue(r *rand.Rand, s *Schema, t *TypeRef, depth int, o ValueOpts) *Val {
	if o.Var != nil && !o.Const && depth > 0 && r.IntN(5) == 0 {
		if v := o.Var(t, false); v != nil {
			return v
		}
	}
	if !t.NonNull && r.IntN(6) == 0 {
		return Null()
	}
	if t.Elem != nil {
		if !o.NoSingleton && r.IntN(8) == 0 && t.Elem.Elem == nil {
			// list input coercion: a single item where a list is expected (not for nested lists, and
			// not null which would mean a null list)
			co := o
			co.Const, co.Var = true, nil
			it := GenValue(r, s, t.Elem.Required(), depth+1, co)
			if it.Kind != VNull && it.Kind != VVar && it.Kind != VList {
				return it
			}
		}
		n := r.IntN(4)
		if depth > 2 {
			n = r.IntN(2)
		}
		items := make([]*Val, n)
		for i := range items {
			items[i] = GenValue(r, s, t.Elem, depth+1, o)
		}
		return ListV(items...)
	}
	return genNamed(r, s, t.Name, depth, o)
}

func genNamed(r *rand.Rand, s *Schema, name string, depth int, o ValueOpts) *Val {
	switch name {
	case "Int":
		return genInt(r, o)
	case "Float":
		if r.IntN(3) == 0 {
			return genInt(r, o) // Int literal is coercible to Float
		}
		return genFloat(r, o)
	case "String":
		return genString(r, o)
	case "Boolean":
		return BoolV(r.IntN(2) == 0)
	case "ID":
		if r.IntN(3) == 0 {
			return IntV(int64(r.IntN(1000)))
		}
		return StrV(fmt.Sprintf("id-%d", r.IntN(100)))
	}
	td := s.Type(name)
	if td == nil {
		return StrV("?")
	}
	switch td.Kind {
	case Enum:
		return EnumV(td.EnumValues[r.IntN(len(td.EnumValues))].Name)
	case Scalar:
		// custom scalar: any value kind is acceptable
		switch r.IntN(7) {
		case 5, 6:
			// same spelling, different kind: a string whose content spells a number / boolean / null
			// next to that very number / boolean (variable extraction de-duplicates literals by value)
			switch r.IntN(7) {
			case 0:
				return IntV(1)
			case 1:
				return StrV("1")
			case 2:
				return BoolV(true)
			case 3:
				return StrV("true")
			case 4:
				return StrV("null")
			case 5:
				return StrV("false")
			default:
				return BoolV(false)
			}
		case 0:
			return genInt(r, o)
		case 1:
			return BoolV(true)
		case 2:
			if depth < 3 {
				return ObjV(ObjField{"k", genString(r, o)}, ObjField{"n", genInt(r, o)})
			}
			return genString(r, o)
		case 3:
			if depth < 3 {
				return ListV(genInt(r, o), genString(r, o))
			}
			return genString(r, o)
		default:
			return genString(r, o)
		}
	case Input:
		if td.OneOf {
			f := td.InputFields[r.IntN(len(td.InputFields))]
			v := GenValue(r, s, f.Type.Required(), depth+1, o)
			return ObjV(ObjField{f.Name, v})
		}
		var fields []ObjField
		for _, f := range td.InputFields {
			required := f.Type.NonNull && f.Default == nil
			if !required && (r.IntN(2) == 0 || depth > 3) {
				continue
			}
			if o.Shallow && !required && s.KindOf(f.Type.NamedType()) == Input {
				continue
			}
			fields = append(fields, ObjField{f.Name, GenValue(r, s, f.Type, depth+1, o)})
		}
		if r.IntN(2) == 0 {
			r.Shuffle(len(fields), func(a, b int) { fields[a], fields[b] = fields[b], fields[a] })
		}
		return ObjV(fields...)
	}
	return Null()
}

func genInt(r *rand.Rand, o ValueOpts) *Val {
	pool := []int64{0, 1, -1, 7, 42, 1000, -1000, 2147483647, -2147483648, 123456}
	v := IntV(pool[r.IntN(len(pool))])
	if r.IntN(2) == 0 {
		v = IntV(int64(r.IntN(2000)) - 1000)
	}
	return v
}

func genFloat(r *rand.Rand, o ValueOpts) *Val {
	if o.Spellings {
		type fs struct {
			sp string
			v  float64
		}
		pool := []fs{{"1.5", 1.5}, {"-1.5", -1.5}, {"0.0", 0}, {"1e3", 1000}, {"1E3", 1000}, {"1e+3", 1000}, {"1.5e-3", 0.0015}, {"-0.0", 0}, {"6.0221413e23", 6.0221413e23}, {"0.1e1", 1}, {"123456789.125", 123456789.125}, {"1.0", 1}}
		c := pool[r.IntN(len(pool))]
		return &Val{Kind: VFloat, Float: c.v, Spelling: c.sp}
	}
	pool := []float64{0.5, -0.5, 1.25, 100.75, -3.5, 0.125}
	return FloatV(pool[r.IntN(len(pool))])
}

func genString(r *rand.Rand, o ValueOpts) *Val {
	s := stringValuePool[r.IntN(len(stringValuePool))]
	if r.IntN(3) == 0 {
		s = fmt.Sprintf("s%d", r.IntN(1000))
	}
	return StrV(s)
}

// ConstValue is GenValue in const mode with canonical spellings (used for defaults).
func ConstValue(r *rand.Rand, s *Schema, t *TypeRef, depth int) *Val {
	return GenValue(r, s, t, depth, ValueOpts{Const: true, NoSingleton: true})
}

// CanonJSON renders any JSON-ish Go value with sorted keys (for hashing/comparison).
func CanonJSON(v any) string {
	var sb strings.Builder
	canon(&sb, v)
	return sb.String()
}

func canon(sb *strings.Builder, v any) {
	switch x := v.(type) {
	case nil:
		sb.WriteString("null")
	case map[string]any:
		keys := make([]string, 0, len(x))
		for k := range x {
			keys = append(keys, k)
		}
		sort.Strings(keys)
		sb.WriteByte('{')
		for i, k := range keys {
			if i > 0 {
				sb.WriteByte(',')
			}
			b, _ := json.Marshal(k)
			sb.Write(b)
			sb.WriteByte(':')
			canon(sb, x[k])
		}
		sb.WriteByte('}')
	case []any:
		sb.WriteByte('[')
		for i, it := range x {
			if i > 0 {
				sb.WriteByte(',')
			}
			canon(sb, it)
		}
		sb.WriteByte(']')
	case json.Number:
		sb.WriteString(canonNumber(string(x)))
	case float64:
		sb.WriteString(canonNumber(strconv.FormatFloat(x, 'g', -1, 64)))
	case int:
		sb.WriteString(strconv.Itoa(x))
	case int64:
		sb.WriteString(strconv.FormatInt(x, 10))
	default:
		b, _ := json.Marshal(x)
		sb.Write(b)
	}
}

// canonNumber normalises a JSON number spelling to a canonical one (value-preserving for the
// ranges used here): integers without exponent stay as they are; everything else goes through
// float64 shortest formatting.
func canonNumber(s string) string {
	if !strings.ContainsAny(s, ".eE") {
		if s == "-0" {
			return "0"
		}
		return s
	}
	f, err := strconv.ParseFloat(s, 64)
	if err != nil {
		return s
	}
	if f == float64(int64(f)) && f > -1e15 && f < 1e15 {
		return strconv.FormatInt(int64(f), 10)
	}
	return strconv.FormatFloat(f, 'g', -1, 64)
}
