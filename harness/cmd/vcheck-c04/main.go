package main

import (
	"verifharness/internal/fw"
	_ "verifharness/internal/props/c04"
)

func main() { fw.Main() }
