package main

import (
	"verifharness/internal/fw"
	_ "verifharness/internal/props/c03"
)

func main() { fw.Main() }
