// dbgnorm: triage helper. stdin = JSON {sdl, operation, operationName, variables}; prints the engine admission result.
package main

import (
	"encoding/json"
	"fmt"
	"io"
	"os"

	"verifharness/internal/rig"
)

func main() {
	b, _ := io.ReadAll(os.Stdin)
	var in struct {
		SDL           string `json:"sdl"`
		Operation     string `json:"operation"`
		OperationName string `json:"operationName"`
		Variables     string `json:"variables"`
	}
	if err := json.Unmarshal(b, &in); err != nil {
		panic(err)
	}
	ss, err := rig.LoadSchemas(in.SDL)
	if err != nil {
		fmt.Println("SCHEMA ERR", err)
		return
	}
	eng, _ := rig.NewAdmissionEngine(ss.Repo)
	a := eng.Admit(in.Operation, in.OperationName, []byte(in.Variables))
	fmt.Println("STAGE:", a.Stage, a.Err)
	fmt.Println("PRINTED:", a.Printed)
	fmt.Println("VARS:", string(a.Variables))
	fmt.Println("REMAP:", a.Remap)
	p, v, err := rig.DefaultNormalize(ss.Repo, in.Operation, in.OperationName, []byte(in.Variables))
	fmt.Println("DEFAULT:", p, string(v), err)
}
