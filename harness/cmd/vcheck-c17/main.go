package main

import (
	"verifharness/internal/fw"
	_ "verifharness/internal/props/c17"
)

func main() { fw.Main() }
