package main

import (
	"verifharness/internal/fw"
	_ "verifharness/internal/props/c06"
)

func main() { fw.Main() }
