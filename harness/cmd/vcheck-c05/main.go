package main

import (
	"verifharness/internal/fw"
	_ "verifharness/internal/props/c05"
)

func main() { fw.Main() }
