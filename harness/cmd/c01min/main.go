// c01min: triage helper for C01. Re-generates case (seed, idx), lists the violation classes of each of
// its operations, and shrinks failing operations by delta debugging.
//
//	c01min -seed 1 -idx 2199                 list classes per operation k
//	c01min -seed 1 -idx 2199 -min            minimise every (k, class)
//	c01min -seed 1 -idx 2199 -min -k 3 -class panic
//	c01min -seed 1 -idx 2199 -op file.graphql [-vars '{}'] [-v]   judge a hand-written operation on that layout
//	c01min -seed 1 -idx 2199 -schema         print the layout
package main

import (
	"flag"

	"fmt"
	"github.com/vektah/gqlparser/v2"
	"os"
	"strings"

	"verifharness/internal/gen"
	"verifharness/internal/props/c01/triage"
)

func main() {
	seed := flag.Int64("seed", 1, "VERIF_SEED")
	idx := flag.Int("idx", 0, "case index")
	tier := flag.String("tier", "quick", "tier")
	doMin := flag.Bool("min", false, "minimise failing operations")
	onlyK := flag.Int("k", -1, "only operation k")
	class := flag.String("class", "", "only classes containing this substring")
	budget := flag.Int("budget", 4000, "max executions per minimisation")
	opFile := flag.String("op", "", "judge the operation in this file instead")
	vars := flag.String("vars", "{}", "variables JSON for -op")
	verbose := flag.Bool("v", false, "print requests / responses")
	schema := flag.Bool("schema", false, "print the layout")
	scan := flag.Int("scan", 0, "print the largest operation text of each of the next N cases (size survey) and exit")
	scanOp := flag.Int("scanop", 0, "judge the -op operation on the layouts of the next N cases; print the cases where it is valid and violates")
	flag.Parse()
	if *scanOp > 0 && *opFile != "" {
		b, err := os.ReadFile(*opFile)
		if err != nil {
			panic(err)
		}
		for i := *idx; i < *idx+*scanOp; i++ {
			c, err := triage.Build(*seed, i, *tier)
			if err != nil {
				continue
			}
			v := c.Judge(string(b), []byte(*vars))
			c.GW.Close()
			if v.Invalid == "" {
				fmt.Printf("%d valid classes=%v incomparable_type_condition_chains=%s\n", i, v.Classes, chainFact(c, string(b)))
			}
		}
		return
	}
	if *scan > 0 {
		for i := *idx; i < *idx+*scan; i++ {
			c, err := triage.Build(*seed, i, *tier)
			if err != nil {
				fmt.Println(i, "BUILD ERROR", err)
				continue
			}
			mx, mk := 0, 0
			for _, op := range c.Ops {
				n := len(op.Doc.String())
				fmt.Printf("LEN %d\n", n)
				if n > mx {
					mx, mk = n, op.K
				}
			}
			c.GW.Close()
			fmt.Printf("%d k=%d maxlen=%d\n", i, mk, mx)
		}
		return
	}

	c, err := triage.Build(*seed, *idx, *tier)
	if err != nil {
		fmt.Println("BUILD ERROR:", err)
		os.Exit(2)
	}
	defer c.GW.Close()
	if *schema {
		fmt.Println("# layout:", c.L.Describe)
		fmt.Println("# supergraph\n" + c.L.SuperSDL)
		for _, sg := range c.L.Subgraphs {
			fmt.Println("# ---- " + sg.Name + "\n" + sg.SDL)
		}
		return
	}
	show := func(v triage.Verdict) {
		for _, cl := range v.Classes {
			fmt.Printf("  CLASS %s\n    %s\n", cl, strings.ReplaceAll(v.Msgs[cl], "\n", "\n    "))
		}
		if *verbose {
			for _, rq := range v.Requests {
				fmt.Printf("  REQ %s: %s\n      vars=%s\n      resp=%s\n", rq.Subgraph, rq.Query, trunc(fmt.Sprint(rq.Variables), 400), trunc(rq.Response, 600))
			}
			fmt.Println("  EXPECTED:", trunc(v.Expected, 2000))
			fmt.Println("  OBSERVED:", trunc(v.Observed, 2000))
			fmt.Println("  RAW:", trunc(v.Raw, 2000))
			if v.Stack != "" {
				fmt.Println("  STACK:", trunc(v.Stack, 5000))
			}
		}
	}
	if *opFile != "" {
		b, err := os.ReadFile(*opFile)
		if err != nil {
			panic(err)
		}
		v := c.Judge(string(b), []byte(*vars))
		if v.Invalid != "" {
			fmt.Println("INVALID:", v.Invalid)
			return
		}
		if len(v.Classes) == 0 {
			fmt.Println("HELD")
		}
		fmt.Println("incomparable_type_condition_chains =", chainFact(c, string(b)))
		show(v)
		return
	}
	keep := func(d *gen.Doc) bool { return !gen.UnionFragmentInNonUnionParent(c.L.Super, d) }
	for _, op := range c.Ops {
		if *onlyK >= 0 && op.K != *onlyK {
			continue
		}
		text := op.Doc.String()
		v := c.Judge(text, triage.VarsJSON(op.Vals))
		fmt.Printf("== seed=%d idx=%d k=%d len=%d union_frag=%v abstract_on_object=%v invalid=%q chains=%s classes=%d\n", *seed, *idx, op.K, len(text), gen.UnionFragmentInNonUnionParent(c.L.Super, op.Doc), gen.AbstractFragmentOnObjectParent(c.L.Super, op.Doc), v.Invalid, chainFact(c, text), len(v.Classes))
		for _, cl := range v.Classes {
			fmt.Printf("  CLASS %s\n", cl)
		}
		if !*doMin {
			continue
		}
		for _, cl := range v.Classes {
			if *class != "" && !strings.Contains(cl, *class) {
				continue
			}
			m := c.Minimise(op, cl, *budget, keep)
			fmt.Printf("-- minimised for %q (%d executions):\n%s  variables: %s\n", cl, m.Tests, m.Doc.String(), triage.VarsJSON(m.Vals))
			show(m.V)
		}
	}
}

// chainFact evaluates the input fact triage.IncomparableTypeConditionChains on an operation text.
func chainFact(c *triage.Case, text string) string {
	qd, errs := gqlparser.LoadQuery(c.SuperGql, text)
	if errs != nil || len(qd.Operations) == 0 {
		return "n/a"
	}
	return fmt.Sprint(triage.IncomparableTypeConditionChains(c.SuperGql, qd, qd.Operations[0]))
}

func trunc(s string, n int) string {
	if len(s) > n {
		return s[:n] + "…"
	}
	return s
}
