package main

import (
	"verifharness/internal/fw"
	_ "verifharness/internal/props/c07"
)

func main() { fw.Main() }
