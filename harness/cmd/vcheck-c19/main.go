// vcheck-c19: the C19 check (WebSocket server protocol conformance) as its own binary.
package main

import (
	"verifharness/internal/fw"
	_ "verifharness/internal/props/c19"
)

func main() { fw.Main() }
