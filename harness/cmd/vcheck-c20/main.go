// vcheck-c20: the C20 property check (gRPC datasource answers are consistent projections).
package main

import (
	"verifharness/internal/fw"
	_ "verifharness/internal/props/c20"
)

func main() { fw.Main() }
