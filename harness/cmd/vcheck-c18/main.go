package main

import (
	"verifharness/internal/fw"
	_ "verifharness/internal/props/c18"
)

func main() { fw.Main() }
