package main

import (
	"verifharness/internal/fw"
	_ "verifharness/internal/props/c15"
)

func main() { fw.Main() }
