package main

import (
	"verifharness/internal/fw"
	_ "verifharness/internal/props/c10"
)

func main() { fw.Main() }
