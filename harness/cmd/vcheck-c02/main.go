package main

import (
	"verifharness/internal/fw"
	_ "verifharness/internal/props/c02"
)

func main() { fw.Main() }
