package main

import (
	"verifharness/internal/fw"
	_ "verifharness/internal/props/c08"
)

func main() { fw.Main() }
