package main

import (
	"verifharness/internal/fw"
	_ "verifharness/internal/props/c16"
)

func main() { fw.Main() }
