package main

import (
	"verifharness/internal/fw"
	_ "verifharness/internal/props/c09"
)

func main() { fw.Main() }
