package main

import (
	"verifharness/internal/fw"
	_ "verifharness/internal/props/c01"
)

func main() { fw.Main() }
