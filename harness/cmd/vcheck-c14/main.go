package main

import (
	"verifharness/internal/fw"
	_ "verifharness/internal/props/c14"
)

func main() { fw.Main() }
