package main

import (
	"fmt"
	"io"
	"os"

	"verifharness/internal/shape"

	"github.com/wundergraph/graphql-go-tools/v2/pkg/astparser"
	"github.com/wundergraph/graphql-go-tools/v2/pkg/astprinter"
)

func main() {
	b, _ := io.ReadAll(os.Stdin)
	doc, rep := astparser.ParseGraphqlDocumentBytes(b)
	if rep.HasErrors() {
		fmt.Println("ERR", rep.Error())
		return
	}
	d, e := shape.Dump(&doc)
	fmt.Println(d, e)
	p, err := astprinter.PrintString(&doc)
	fmt.Printf("PRINT: %q %v\n", p, err)
}
