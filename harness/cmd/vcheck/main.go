// vcheck: one CLI for every property check.
//
//	vcheck run <ID> [--tier quick|thorough] [--seed N] [--workers N] [--only idx]
//	vcheck replay <replay.json>
//	vcheck list
//	vcheck worker …            (internal)
package main

import (
	"verifharness/internal/fw"
	_ "verifharness/internal/props"
)

func main() { fw.Main() }
