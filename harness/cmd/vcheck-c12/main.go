package main

import (
	"verifharness/internal/fw"
	_ "verifharness/internal/props/c12"
	_ "verifharness/internal/props/c13"
)

func main() { fw.Main() }
