package main

import (
	"verifharness/internal/fw"
	_ "verifharness/internal/props/c11"
)

func main() { fw.Main() }
